------------------------------ MODULE SpinLock ------------------------------
(***************************************************************************)
(* C12: concurrent State.DoTx / SelectUtxos / PlayAndRepost calls at the   *)
(* granularity of the lock protocol's atomic steps.                        *)
(*                                                                         *)
(*  - per-key try-locks of utxo/spin_lock.go: TryLock = per key            *)
(*    LoadOrStore, then (shared keys) refCounter.Add; Unlock = per key     *)
(*    (reverse order) Delete, or (shared keys) refCounter.Release and,     *)
(*    when the count reached 0, Delete;                                    *)
(*  - doTxSync of state/state.go: RLock, ExtractLockKeys, TryLock          *)
(*    all-or-fail, pool check, doTxInternal (validate against the stored   *)
(*    state, fill the batch), batch write, publish, Unlock, RUnlock;       *)
(*  - SelectUtxos of utxo/utxo.go: per candidate output tryLockKey under   *)
(*    MutexMem, release of the taken locks when the amount is not reached; *)
(*  - PlayAndRepost / Walk: utxo.Mutex.Lock (waits for the readers, bars   *)
(*    new ones), the whole play / walk, Unlock.  Walk rolls back EVERY     *)
(*    pending transaction, plays the block and hands the rolled-back ones  *)
(*    to a goroutine of its own that submits them again (recover): in the  *)
(*    step model the recovery belongs to the walk's step (nothing else     *)
(*    runs in a gated run); the one-at-a-time reading (OutcomeOK) lets     *)
(*    each re-submission take place anywhere after the walk.               *)
(*                                                                         *)
(* A process label is the hook site (/repo build tag verif: utxo.VerifYield,*)
(* state.VerifHook, plus the harness's own "begin" / "verified" / "done")  *)
(* at which the real goroutine is parked; one step = release the goroutine *)
(* until it parks again.  hist is the schedule: <<process, site, key>>.    *)
(*                                                                         *)
(* KF_SharedLockRefCountRace = TRUE : the code's two-step protocol         *)
(* (ACTUAL); FALSE: LoadOrStore+Add and Release+Delete are atomic (IDEAL,  *)
(* the sites *_before_add / *_before_delete do not exist).                 *)
(***************************************************************************)
EXTENDS Integers, Sequences, FiniteSets, TLC, SequencesExt, FiniteSetsExt

CONSTANTS KF_SharedLockRefCountRace,
          Sizes,       \* numbers of concurrent requests, e.g. {2, 3}
          KvPool,      \* requests of family "kv"  (sequence of request names)
          TokPool,     \* requests of family "tok"
          MixPool,     \* requests of family "mix" (transactions with a token part AND a key part)
          Extra,       \* additional hand-picked scenarios (set of sequences of request names)
          GFirst,      \* lock keys of genesis outputs sort before those of other transactions (raw txid order)
          SelDet,      \* selectors visit candidate outputs in one fixed order (generation) / any order (MC)
          LogOn,       \* record the schedule in hist (off for liveness checking, which cannot use a VIEW)
          RecSteps     \* TRUE (model checking): the recovery of a walk is a sequence of submissions of its own, step by step
                       \* beside the other requests; FALSE (generation, gated runs): it belongs to the walk's step

None == "none"
NoRd == "-"
Keys == {"k1", "k2", "k3"}
KeySeq == <<"k1", "k2", "k3">>
Addrs == <<"a", "b", "c", "m", "x">>          \* x: a contract ACCOUNT (rule: key a alone), created by a real $acl transaction in block 1
NoKV == [k \in Keys |-> NoRd]

(* ---- transaction catalogue (exported to the Go concretiser by Gen_SpinLock) ------------------- *)
Out(to, amt) == [to |-> to, amt |-> amt]
Tok(ins, outs) == [ins |-> ins, outs |-> outs, reads |-> NoKV, writes |-> NoKV]
KV(r, w) == [ins |-> {}, outs |-> <<>>, reads |-> r @@ NoKV, writes |-> w @@ NoKV]
Mix(ins, outs, r, w) == [ins |-> ins, outs |-> outs, reads |-> r @@ NoKV, writes |-> w @@ NoKV]
TX == [
  t0  |-> Tok({<<"g", 1>>}, <<Out("a", 2), Out("a", 4)>>),                 \* prelude of family tok: a owns g.0, t0.0, t0.1
  t1  |-> Tok({<<"g", 0>>}, <<Out("b", 4), Out("a", 6)>>),
  t2  |-> Tok({<<"t1", 0>>}, <<Out("c", 4)>>),                           \* child of t1 (its input key is t1's output key)
  t3  |-> Tok({<<"g", 0>>}, <<Out("c", 10)>>),                           \* same output as t1
  t4  |-> Tok({<<"t0", 1>>}, <<Out("c", 4)>>),                           \* independent of t1 / t3
  t8  |-> Tok({<<"g", 0>>, <<"t0", 1>>}, <<Out("c", 14)>>),              \* two inputs: partial-lock patterns
  ta  |-> Tok({<<"g", 2>>}, <<Out("c", 3)>>),                            \* spends the output owned by the account x (signed by a for x: verified through the ACL manager)
  p1  |-> KV("k1" :> None, "k1" :> "v1"),                              \* prelude of family kv: creates k1
  p2  |-> KV("k1" :> "p1", "k1" :> "v2"),                              \* writer of k1
  p3  |-> KV("k1" :> "p1", "k1" :> "v3"),                              \* second writer of the same version
  p5  |-> KV("k1" :> "p1", NoKV),                                      \* read-only sharer of k1
  p6  |-> KV("k1" :> "p1", NoKV),                                      \* second sharer
  p7  |-> KV("k2" :> None, "k2" :> "w1"),                              \* independent key
  p8  |-> KV(("k1" :> "p1") @@ ("k2" :> None), "k2" :> "w2"),          \* shares k1, writes k2
  p9  |-> KV(("k1" :> "p1") @@ ("k2" :> None), "k1" :> "v9"),          \* writes k1, shares k2 (write skew with p8)
  p10 |-> KV(("k1" :> "p1") @@ ("k2" :> None) @@ ("k3" :> None), "k3" :> "x1"),  \* three keys: S, S, X
  (* family mix (prelude p1): MIXED transactions - a token part and a key part. The version check of the key part
     (xmodel.DoTx in doTxInternal) and the token part (inputs unspent) are two refusal stages of one submission; a
     submission refused at either stage leaves nothing behind, in particular not in the balances the node answers. *)
  m1  |-> Mix({<<"g", 0>>}, <<Out("b", 4), Out("a", 6)>>, "k1" :> "p1", "k1" :> "u1"),      \* a pays b and writes k1
  m2  |-> Mix({<<"g", 1>>}, <<Out("a", 5), Out("c", 1)>>, "k1" :> "p1", "k1" :> "u2"),      \* b pays a and c, writes k1: conflict with m1 on the KEY only
  m3  |-> Mix({<<"g", 0>>}, <<Out("c", 10)>>, "k2" :> None, "k2" :> "u3"),                  \* conflict with m1 on the OUTPUT only
  m4  |-> Mix({<<"g", 0>>}, <<Out("c", 3), Out("a", 7)>>, "k1" :> "p1", "k1" :> "u4"),      \* conflict with m1 on BOTH
  m5  |-> Mix({<<"g", 2>>}, <<Out("c", 3)>>, "k1" :> "p1", NoKV)                           \* the account x pays c, only READS k1: loses to a writer that went first
]
GenesisOuts == <<Out("a", 10), Out("b", 6), Out("x", 3)>>
GenesisTotal == 19
Award == 1
(* aw1: award of block 1 (the block that creates the account x; the requests start on it), aw2: award of the peer block 2 *)
OutsOf(t) == IF t = "g" THEN GenesisOuts ELSE IF t \in {"aw1", "aw2"} THEN <<Out("m", Award)>> ELSE TX[t].outs
OutIds(t) == {<<t, i - 1>> : i \in DOMAIN OutsOf(t)}
AllOuts == UNION {OutIds(t) : t \in DOMAIN TX \cup {"g", "aw1", "aw2"}}
Owner(u) == OutsOf(u[1])[u[2] + 1].to
Amt(u) == OutsOf(u[1])[u[2] + 1].amt
SumAmt(S) == FoldSet(LAMBDA u, acc : acc + Amt(u), 0, S)

(* ---- requests ---------------------------------------------------------------------------------- *)
DoReq(t) == [ty |-> "dotx", t |-> t, a |-> "-", need |-> 0, lk |-> FALSE, b |-> <<>>]
SelReq(a, need, lk) == [ty |-> "sel", t |-> "-", a |-> a, need |-> need, lk |-> lk, b |-> <<>>]
PlayReq(b) == [ty |-> "play", t |-> "-", a |-> "-", need |-> 0, lk |-> FALSE, b |-> b]
WalkReq(b) == [ty |-> "walk", t |-> "-", a |-> "-", need |-> 0, lk |-> FALSE, b |-> b]
(* the peer block 2 of a family = [award] \o BlockOf[family] on block 1. kv: the block confirms the prelude p1 and
   brings p7, a CONTRACT INVOCATION the node has (usually) not seen; tok: it brings ta, the spend of an
   ACCOUNT-OWNED output: play / walk verify them under the exclusive lock through the real contract and ACL managers
   (which read the confirmed tip) *)
BlockOf == [kv |-> <<"p1", "p7">>, tok |-> <<"t3", "ta">>, mix |-> <<>>]
ReqDef == [t \in DOMAIN TX |-> DoReq(t)] @@
  [ sa10 |-> SelReq("a", 10, TRUE),        \* a owns 10 + 2 + 4
    sa4  |-> SelReq("a", 4, TRUE),
    sa16 |-> SelReq("a", 16, TRUE),
    sn4  |-> SelReq("a", 4, FALSE),        \* without locking: skips locked outputs
    play3 |-> PlayReq(BlockOf.tok),        \* peer block 2 = [award, t3, ta] on block 1
    walk3 |-> WalkReq(BlockOf.tok),        \* State.Walk to that block
    playk |-> PlayReq(BlockOf.kv),         \* peer block 2 = [award, p1, p7]
    walkk |-> WalkReq(BlockOf.kv) ]
Fam == [kv |-> [pre |-> <<"p1">>, blk |-> BlockOf.kv], tok |-> [pre |-> <<"t0">>, blk |-> BlockOf.tok],
        mix |-> [pre |-> <<"p1">>, blk |-> BlockOf.mix]]
KvPoolFull  == <<"p2", "p3", "p5", "p6", "p7", "p8", "p9", "p10", "playk", "walkk">>
TokPoolFull == <<"t1", "t2", "t3", "t4", "t8", "ta", "sa10", "sa4", "sa16", "sn4", "play3", "walk3">>
(* family mix: the mixed transactions beside a pure writer of k1 and a pure spender of g.0 (no play, no walk) *)
MixPoolFull  == <<"m1", "m2", "m3", "m4", "m5", "p2", "t3">>
MixPoolSmall == <<"m1", "m2", "m3", "m4", "m5">>
MixPool4     == <<>>
MixNames == {"m1", "m2", "m3", "m4", "m5"}
KvPoolSmall  == <<"p2", "p3", "p5", "p6", "p8", "p9", "playk", "walkk">>
TokPoolSmall == <<"t1", "t2", "t3", "t8", "sa10", "sa4", "play3", "walk3">>
(* scenarios of four requests: without walks (hand-picked ones with a walk: FourProc) *)
KvPool4  == <<"p2", "p3", "p5", "p6", "p8", "p9">>
TokPool4 == <<"t1", "t2", "t3", "t8", "sa10", "sa4", "play3">>
KvNames == Range(KvPoolFull)
FamOf(scn) == IF \E i \in DOMAIN scn : scn[i] \in MixNames THEN "mix" ELSE IF scn[1] \in KvNames THEN "kv" ELSE "tok"
(* all multisets (non-decreasing index sequences) of n requests of one pool, at most one play or walk *)
Multisets(pool, n) ==
  {[i \in 1..n |-> pool[f[i]]] : f \in {g \in [1..n -> 1..Len(pool)] : \A i \in 1..(n - 1) : g[i] <= g[i + 1]}}
Excl(r) == r.ty \in {"play", "walk"}
OnePlay(scn) == Cardinality({i \in DOMAIN scn : Excl(ReqDef[scn[i]])}) <= 1
Scenarios == {s \in UNION {Multisets(KvPool, n) \cup Multisets(TokPool, n) \cup Multisets(MixPool, n) : n \in Sizes} : OnePlay(s)} \cup Extra
NoExtra == {}
Race3 == {<<"p2", "p5", "p6">>}
Race4 == {<<"p2", "p3", "p5", "p6">>}
Three == {<<"p2", "p5", "p6">>, <<"p2", "p8", "p9">>, <<"p3", "p5", "p10">>, <<"t1", "t3", "t8">>, <<"t1", "t2", "play3">>, <<"t3", "t8", "sa10">>, <<"sa10", "sa4", "sa16">>,
          <<"p2", "p8", "p10">>,          \* p8 is refused at its second key while it shares the first with p10: a partial lock is handed back
          <<"t1", "t4", "walk3">>, <<"p5", "p8", "walkk">>,
          <<"m1", "m2", "m5">>}           \* two mixed writers and a mixed reader of k1, token parts independent: the losers are refused at the key stage
FourProc == {<<"p2", "p3", "p5", "p6">>, <<"p2", "p5", "p8", "p9">>, <<"p5", "p6", "p8", "p10">>, <<"p2", "p7", "p8", "p9">>,
             <<"t1", "t2", "t3", "sa10">>, <<"t1", "t8", "sa4", "play3">>, <<"t3", "sa10", "sa16", "play3">>,
             <<"t1", "t3", "t4", "t8">>, <<"sa10", "sa4", "sa16", "sn4">>,
             <<"t1", "t8", "sa4", "walk3">>, <<"p2", "p5", "p8", "playk">>, <<"p3", "p7", "p9", "walkk">>}
(* model checking only (two exclusive requests are not replayed gated: the walk's recovery would run beside the play) *)
TwoExcl == {<<"t1", "play3", "walk3">>, <<"p5", "playk", "walkk">>, <<"t1", "t2", "play3", "walk3">>}
FourProcTwoExcl == FourProc \cup TwoExcl

(* ---- lock keys: ExtractLockKeys ------------------------------------------------------------------ *)
(* inputs and own outputs exclusive; keys only read shared; keys written exclusive; sorted by the raw  *)
(* key string (the concretiser signs until the raw txids are ordered like the ranks below)             *)
TxRank == [g |-> IF GFirst THEN 0 ELSE 90, t0 |-> 1, t1 |-> 2, t2 |-> 3, t3 |-> 4, t4 |-> 5, t8 |-> 6, ta |-> 7,
           m1 |-> 8, m2 |-> 9, m3 |-> 10, m4 |-> 11, m5 |-> 12]
(* the raw key of a contract key is "<bucket>/<key>": it sorts between the genesis outputs and the outputs of the
   other transactions (GFirst: genesis outputs, keys, other outputs; otherwise other outputs, keys, genesis outputs) *)
KvRank == IF GFirst THEN 4 ELSE 500
KeyIdx == [k1 |-> 1, k2 |-> 2, k3 |-> 3]
UKey(u) == [k |-> u[1] \o "_" \o ToString(u[2]), m |-> "X", r |-> TxRank[u[1]] * 10 + u[2]]
LockSet(t) ==
  {UKey(u) : u \in TX[t].ins \cup OutIds(t)} \cup
  {[k |-> k, m |-> IF TX[t].writes[k] # NoRd THEN "X" ELSE "S", r |-> KvRank + KeyIdx[k]] :
      k \in {k \in Keys : TX[t].reads[k] # NoRd \/ TX[t].writes[k] # NoRd}}
LK == [t \in DOMAIN TX |-> SetToSortSeq(LockSet(t), LAMBDA x, y : x.r < y.r)]
LockNames == UNION {{x.k : x \in LockSet(t)} : t \in DOMAIN TX}
LockConflict(t, u) == \E x \in LockSet(t), y \in LockSet(u) : x.k = y.k /\ (x.m = "X" \/ y.m = "X")

(* ---- one-at-a-time semantics (what a serial execution does; cf. XState.tla Valid / Apply / Play) -- *)
S0 == [utxo |-> OutIds("g") \cup OutIds("aw1"), ver |-> [k \in Keys |-> None], pool |-> {}, total |-> GenesisTotal + Award, ptr |-> 1]
TokenOK(s, t) == TX[t].ins \subseteq s.utxo
ReadsOKW(s, t, waived) == \A k \in Keys : TX[t].reads[k] # NoRd => (s.ver[k] = TX[t].reads[k] \/ k \in waived)
ReadsOK(s, t) == ReadsOKW(s, t, {})
Valid(s, t) == TokenOK(s, t) /\ ReadsOK(s, t)
RealOuts(t) == {u \in OutIds(t) : Amt(u) > 0}
(* the batch of doTxInternal depends on the transaction only *)
Write(s, t) == [s EXCEPT !.utxo = (@ \ TX[t].ins) \cup RealOuts(t),
                         !.ver = [k \in Keys |-> IF TX[t].writes[k] # NoRd THEN t ELSE @[k]]]
Apply(s, t) == [Write(s, t) EXCEPT !.pool = @ \cup {t}]
Unapply(s, t) == [s EXCEPT !.utxo = (@ \ RealOuts(t)) \cup TX[t].ins,
                           !.ver = [k \in Keys |-> IF TX[t].writes[k] # NoRd THEN TX[t].reads[k] ELSE @[k]],
                           !.pool = @ \ {t}]
ApplySeq(s, seq) == FoldLeft(LAMBDA acc, t : Apply(acc, t), s, seq)
Start(fam) == ApplySeq(S0, Fam[fam].pre)
DependsOn(t, u) == (\E i \in TX[t].ins : i[1] = u) \/ (\E k \in Keys : TX[t].reads[k] = u)
Idx(n) == [i \in 1..n |-> i]
(* consumers first *)
UndoOrder(S) ==
  FoldLeft(LAMBDA acc, i : LET c == CHOOSE c \in acc.rest : ~\E u \in acc.rest \ {c} : DependsOn(u, c) IN
                           [rest |-> acc.rest \ {c}, seq |-> Append(acc.seq, c)],
           [rest |-> S, seq |-> <<>>], Idx(Cardinality(S))).seq
UndoSet(s, S) == FoldLeft(LAMBDA acc, t : Unapply(acc, t), s, UndoOrder(S))
Closure(s, S) == FoldLeft(LAMBDA acc, i : acc \cup {t \in s.pool : \E u \in acc : DependsOn(t, u)}, S, Idx(Cardinality(s.pool)))
(* PlayAndRepost of block 2 = [award, bt] on the root (processUnconfirmTxs): a pending transaction that is not in the
   block is undone together with its descendants when it spends an input of the block, or when it reads or writes
   a key the block writes in another version than the block's last writer of the key - unless that writer is
   itself pending here - or when it read a key version that a block transaction read and overwrote. (The selection locks of the outputs the undone transactions had spent are released: the
   outputs are free again.) Block transactions that are pending are confirmed without a second verification,
   the others verified and applied. *)
LastWriter(bt, k) == LET W == {i \in DOMAIN bt : TX[bt[i]].writes[k] # NoRd} IN IF W = {} THEN None ELSE bt[Max(W)]
KeyConflict(s, u, bt) ==
  \/ \E k \in Keys : LET w == LastWriter(bt, k) IN
                            /\ w # None /\ w \notin s.pool
                            /\ (TX[u].writes[k] # NoRd \/ (TX[u].reads[k] # NoRd /\ TX[u].reads[k] # w))
  (* since fix 835b00b of the repository: a block transaction read AND overwrote a key version u read - u is stale
     whether or not that block transaction is pending here (XState.tla: Superseded) *)
  \/ \E k \in Keys : /\ TX[u].reads[k] # NoRd
                      /\ \E i \in DOMAIN bt : TX[bt[i]].writes[k] # NoRd /\ TX[bt[i]].reads[k] = TX[u].reads[k]
ApplyBlock(s, bt, skip) ==
  FoldLeft(LAMBDA acc, t : IF ~acc.ok \/ t \in skip THEN acc
                           ELSE IF Valid(acc.s, t) THEN [ok |-> TRUE, s |-> Write(acc.s, t)]
                           ELSE [ok |-> FALSE, s |-> acc.s],
           [ok |-> TRUE, s |-> s], bt)
Tip2(s) == [s EXCEPT !.utxo = @ \cup OutIds("aw2"), !.total = @ + Award, !.ptr = 2]
PlaySeq(s, bt) ==
  IF s.ptr # 1 THEN [ok |-> FALSE, s |-> s, rel |-> {}]
  ELSE LET inb == Range(bt)
           bins == UNION {TX[t].ins : t \in inb}
           undone == Closure(s, {u \in s.pool \ inb : TX[u].ins \cap bins # {} \/ KeyConflict(s, u, bt)})
           keep == s.pool \cap inb
           r == ApplyBlock(UndoSet(s, undone), bt, keep) IN
       IF ~r.ok THEN [ok |-> FALSE, s |-> s, rel |-> {}]
       ELSE [ok |-> TRUE, s |-> [Tip2(r.s) EXCEPT !.pool = @ \ keep],
             rel |-> UNION {TX[u].ins : u \in undone}]       \* undoTxInternal: UnlockKey of every restored input
(* Walk to block 2: EVERY pending transaction is rolled back (and its inputs' selection locks released), the block
   is played on the bare confirmed state (nothing when the node is at block 2 already); a walk that fails has lost
   the pool. rec: the rolled-back transactions that are not in the block (not "in trunk") are handed to the recover
   goroutine, which submits each of them again (verification, doTxSync), producers before consumers, otherwise in
   no particular order (map iteration). *)
WalkCore(s, bt) ==
  LET base == UndoSet(s, s.pool)
      rel == UNION {TX[u].ins : u \in s.pool}
      r == IF s.ptr # 1 THEN [ok |-> TRUE, s |-> base]
           ELSE LET b == ApplyBlock(base, bt, {}) IN IF b.ok THEN [ok |-> TRUE, s |-> Tip2(b.s)] ELSE [ok |-> FALSE, s |-> base] IN
  [ok |-> r.ok, s |-> r.s, mid |-> base, rel |-> rel, rec |-> IF r.ok THEN s.pool \ Range(bt) ELSE {}]
ReadyRec(R) == {t \in R : \A u \in R \ {t} : ~DependsOn(t, u)}
Resubmit(s, t) == IF t \notin s.pool /\ Valid(s, t) THEN Apply(s, t) ELSE s
(* the states in which the recovery of R can end when nothing else happens meanwhile *)
RECURSIVE RecAll(_, _)
RecAll(s, R) == IF R = {} THEN {s} ELSE UNION {RecAll(Resubmit(s, t), R \ {t}) : t \in ReadyRec(R)}
WalkOutcomes(s, bt) == LET c == WalkCore(s, bt) IN {[ok |-> c.ok, s |-> f, rel |-> c.rel] : f \in RecAll(c.s, c.rec)}

(* ---- the step model ------------------------------------------------------------------------------ *)
VARIABLES sc,      \* the scenario: process p executes request sc[p]
          pc,      \* process -> site at which it is parked
          ki,      \* process -> index of the lock key in work (TryLock: in LK, Unlock: in held)
          held,    \* process -> succLockKeys
          lm, ref, \* SpinLock.m (key -> none / S / X), refCounter
          rwR, rwWait, \* utxo.Mutex: processes holding the read lock; writers that have called Lock()
          sel,     \* utxo.lockKeys: output -> selector holding it (0 = not locked)
          scan,    \* selector -> [vis, got, acc]
          db,      \* the stored state incl. the published pool (UnconfirmTxInMem)
          res,     \* process -> [c |-> result class, outs |-> selected outputs]
          released, \* outputs whose selection lock was released by an undo (history)
          rec,     \* walk process -> [todo: rolled-back transactions still to be re-submitted, cur: the one in work]
          hist
vars == <<sc, pc, ki, held, lm, ref, rwR, rwWait, sel, scan, db, res, released, rec, hist>>
Procs == DOMAIN sc
Req(p) == ReqDef[sc[p]]
T(p) == IF Req(p).ty = "walk" THEN rec[p].cur ELSE Req(p).t
NK(p) == Len(LK[T(p)])
NoRes == [c |-> "-", outs |-> {}]

InitFor(scn) ==
  /\ sc = scn
  /\ pc = [p \in DOMAIN scn |-> "begin"] /\ ki = [p \in DOMAIN scn |-> 0] /\ held = [p \in DOMAIN scn |-> <<>>]
  /\ lm = [k \in LockNames |-> None] /\ ref = [k \in LockNames |-> 0]
  /\ rwR = {} /\ rwWait = {}
  /\ sel = [u \in AllOuts |-> 0]
  /\ scan = [p \in DOMAIN scn |-> [vis |-> {}, got |-> {}, acc |-> 0]]
  /\ db = Start(FamOf(scn))
  /\ res = [p \in DOMAIN scn |-> NoRes]
  /\ released = {}
  /\ rec = [p \in DOMAIN scn |-> [todo |-> {}, cur |-> "-"]]
  /\ hist = <<>>
Init == \E scn \in Scenarios : InitFor(scn)

Goto(p, l) == pc' = [pc EXCEPT ![p] = l]
(* the recovery of a walk answers nobody: the walk's own result stays *)
SetRes(p, c) == res' = [res EXCEPT ![p] = IF Req(p).ty = "walk" /\ c \notin {"ok", "fail"} THEN @ ELSE [c |-> c, outs |-> {}]]
(* where a submission ends: the request returns - or the recovery turns to the next rolled-back transaction *)
Ret(p) == IF Req(p).ty = "walk" /\ rec[p].todo # {} THEN "rec_next" ELSE "done"
Two == KF_SharedLockRefCountRace

(* VerifyTx (outside every lock): the versions a contract transaction read must be the stored ones *)
Verify(p) ==
  /\ (pc[p] = "begin" /\ Req(p).ty = "dotx") \/ (pc[p] = "rec_verify" /\ Req(p).ty = "walk")
  /\ IF ReadsOK(db, T(p)) THEN Goto(p, "verified") /\ UNCHANGED res
     ELSE Goto(p, Ret(p)) /\ SetRes(p, "stale")
  /\ UNCHANGED <<sc, rec, ki, held, lm, ref, rwR, rwWait, sel, scan, db, released>>
(* DoTx: RLock (not granted while a writer holds or waits for the mutex), ExtractLockKeys *)
AcquireR(p) ==
  /\ pc[p] = "verified" /\ rwWait = {}
  /\ rwR' = rwR \cup {p} /\ Goto(p, "dotx_before_trylock")
  /\ UNCHANGED <<sc, rec, ki, held, lm, ref, rwWait, sel, scan, db, res, released>>
EnterTryLock(p) ==
  /\ pc[p] = "dotx_before_trylock"
  /\ IF NK(p) = 0 THEN Goto(p, "dotx_locked") /\ UNCHANGED ki ELSE Goto(p, "trylock_key") /\ ki' = [ki EXCEPT ![p] = 1]
  /\ UNCHANGED <<sc, rec, held, lm, ref, rwR, rwWait, sel, scan, db, res, released>>
(* key i is locked: next key, or TryLock returns true *)
Advance(p, i, L) ==
  /\ held' = [held EXCEPT ![p] = Append(@, L)]
  /\ IF i < NK(p) THEN Goto(p, "trylock_key") /\ ki' = [ki EXCEPT ![p] = i + 1] ELSE Goto(p, "dotx_locked") /\ UNCHANGED ki
TryKey(p) ==
  /\ pc[p] = "trylock_key"
  /\ LET i == ki[p]
         L == LK[T(p)][i]
         cur == lm[L.k] IN
     IF cur = None
     THEN /\ lm' = [lm EXCEPT ![L.k] = L.m]                                   \* LoadOrStore stored
          /\ IF Two /\ L.m = "S" THEN Goto(p, "trylock_first_before_add") /\ UNCHANGED <<ref, held, ki>>
             ELSE ref' = (IF L.m = "S" THEN [ref EXCEPT ![L.k] = @ + 1] ELSE ref) /\ Advance(p, i, L)
          /\ UNCHANGED res
     ELSE IF cur = "S" /\ L.m = "S"
     THEN /\ IF Two THEN Goto(p, "trylock_shared_before_add") /\ UNCHANGED <<ref, held, ki>>
             ELSE ref' = [ref EXCEPT ![L.k] = @ + 1] /\ Advance(p, i, L)
          /\ UNCHANGED <<lm, res>>
     ELSE Goto(p, "dotx_before_unlock") /\ SetRes(p, "busy") /\ UNCHANGED <<lm, ref, held, ki>>   \* TryLock returns false
  /\ UNCHANGED <<sc, rec, rwR, rwWait, sel, scan, db, released>>
RefAdd(p) ==
  /\ pc[p] \in {"trylock_first_before_add", "trylock_shared_before_add"}
  /\ LET L == LK[T(p)][ki[p]] IN ref' = [ref EXCEPT ![L.k] = @ + 1] /\ Advance(p, ki[p], L)
  /\ UNCHANGED <<sc, rec, lm, rwR, rwWait, sel, scan, db, res, released>>
(* critical section *)
CheckPool(p) ==
  /\ pc[p] = "dotx_locked"
  /\ IF T(p) \in db.pool THEN Goto(p, "dotx_before_unlock") /\ SetRes(p, "stale") ELSE Goto(p, "dotx_before_apply") /\ UNCHANGED res
  /\ UNCHANGED <<sc, rec, ki, held, lm, ref, rwR, rwWait, sel, scan, db, released>>
VerifyAndApply(p) ==
  /\ pc[p] = "dotx_before_apply"
  /\ IF Valid(db, T(p)) THEN Goto(p, "dotx_before_write") /\ UNCHANGED res ELSE Goto(p, "dotx_before_unlock") /\ SetRes(p, "stale")
  /\ UNCHANGED <<sc, rec, ki, held, lm, ref, rwR, rwWait, sel, scan, db, released>>
BatchWrite(p) ==
  /\ pc[p] = "dotx_before_write"
  /\ db' = Write(db, T(p)) /\ Goto(p, "dotx_after_write")
  /\ UNCHANGED <<sc, rec, ki, held, lm, ref, rwR, rwWait, sel, scan, res, released>>
Publish(p) ==
  /\ pc[p] = "dotx_after_write"
  /\ db' = [db EXCEPT !.pool = @ \cup {T(p)}] /\ SetRes(p, "admit") /\ Goto(p, "dotx_before_unlock")
  /\ UNCHANGED <<sc, rec, ki, held, lm, ref, rwR, rwWait, sel, scan, released>>
(* Unlock (reverse order), then RUnlock and return *)
Finish(p) == Goto(p, Ret(p)) /\ rwR' = rwR \ {p}
NextU(p, j) == IF j > 1 THEN Goto(p, "unlock_key") /\ ki' = [ki EXCEPT ![p] = j - 1] /\ UNCHANGED rwR ELSE Finish(p) /\ UNCHANGED ki
EnterUnlock(p) ==
  /\ pc[p] = "dotx_before_unlock"
  /\ IF held[p] = <<>> THEN Finish(p) /\ UNCHANGED ki
     ELSE Goto(p, "unlock_key") /\ ki' = [ki EXCEPT ![p] = Len(held[p])] /\ UNCHANGED rwR
  /\ UNCHANGED <<sc, rec, held, lm, ref, rwWait, sel, scan, db, res, released>>
UnlockKey(p) ==
  /\ pc[p] = "unlock_key"
  /\ LET j == ki[p]
         L == held[p][j] IN
     IF L.m = "X" THEN lm' = [lm EXCEPT ![L.k] = None] /\ UNCHANGED ref /\ NextU(p, j)
     ELSE /\ ref' = [ref EXCEPT ![L.k] = @ - 1]                                \* Release
          /\ IF ref[L.k] - 1 # 0 THEN UNCHANGED lm /\ NextU(p, j)
             ELSE IF Two THEN Goto(p, "unlock_shared_before_delete") /\ UNCHANGED <<lm, ki, rwR>>
             ELSE lm' = [lm EXCEPT ![L.k] = None] /\ NextU(p, j)
  /\ UNCHANGED <<sc, rec, held, rwWait, sel, scan, db, res, released>>
DeleteKey(p) ==
  /\ pc[p] = "unlock_shared_before_delete"
  /\ LET L == held[p][ki[p]] IN lm' = [lm EXCEPT ![L.k] = None] /\ NextU(p, ki[p])
  /\ UNCHANGED <<sc, rec, held, ref, rwWait, sel, scan, db, res, released>>

(* SelectUtxos: one candidate output per step (tryLockKey / isLocked under MutexMem) *)
Cand(p) == {u \in db.utxo : Owner(u) = Req(p).a} \ scan[p].vis
First(S) == CHOOSE u \in S : \A v \in S : TxRank[u[1]] * 10 + u[2] <= TxRank[v[1]] * 10 + v[2]
SelScan(p) ==
  /\ pc[p] \in {"begin", "sel_scan"} /\ Req(p).ty = "sel"
  /\ IF Cand(p) = {}
     THEN /\ IF Req(p).lk /\ scan[p].got # {} THEN Goto(p, "sel_unlock") /\ UNCHANGED res
             ELSE Goto(p, "done") /\ SetRes(p, "nomoney")
          /\ UNCHANGED <<sel, scan>>
     ELSE \E u \in (IF SelDet THEN {First(Cand(p))} ELSE Cand(p)) :
          IF sel[u] # 0
          THEN scan' = [scan EXCEPT ![p].vis = @ \cup {u}] /\ Goto(p, "sel_scan") /\ UNCHANGED <<sel, res>>
          ELSE /\ sel' = IF Req(p).lk THEN [sel EXCEPT ![u] = p] ELSE sel
               /\ scan' = [scan EXCEPT ![p] = [vis |-> @.vis \cup {u}, got |-> @.got \cup {u}, acc |-> @.acc + Amt(u)]]
               /\ IF scan[p].acc + Amt(u) >= Req(p).need
                  THEN Goto(p, "done") /\ res' = [res EXCEPT ![p] = [c |-> "ok", outs |-> scan[p].got \cup {u}]]
                  ELSE Goto(p, "sel_scan") /\ UNCHANGED res
  /\ UNCHANGED <<sc, rec, ki, held, lm, ref, rwR, rwWait, db, released>>
SelUnlock(p) ==
  /\ pc[p] = "sel_unlock"
  /\ LET u == First(scan[p].got) IN
     /\ sel' = [sel EXCEPT ![u] = 0] /\ scan' = [scan EXCEPT ![p].got = @ \ {u}]
     /\ IF scan[p].got = {u} THEN Goto(p, "done") /\ SetRes(p, "nomoney") ELSE UNCHANGED <<pc, res>>
  /\ UNCHANGED <<sc, rec, ki, held, lm, ref, rwR, rwWait, db, released>>

(* PlayAndRepost / Walk: Lock() waits until the readers have left and bars new readers meanwhile; the play (the walk
   and its recovery) has no yield point (one step) *)
DoExcl(p) ==
  IF Req(p).ty = "walk" /\ RecSteps
  THEN LET c == WalkCore(db, Req(p).b) IN
       /\ db' = c.s /\ SetRes(p, IF c.ok THEN "ok" ELSE "fail")
       /\ rec' = [rec EXCEPT ![p] = [todo |-> c.rec, cur |-> "-"]]
       /\ Goto(p, IF c.rec = {} THEN "done" ELSE "rec_next")
       /\ sel' = [u \in AllOuts |-> IF u \in c.rel THEN 0 ELSE sel[u]]
       /\ released' = released \cup c.rel
  ELSE \E r \in (IF Req(p).ty = "play" THEN {PlaySeq(db, Req(p).b)} ELSE WalkOutcomes(db, Req(p).b)) :
       /\ db' = r.s /\ SetRes(p, IF r.ok THEN "ok" ELSE "fail") /\ Goto(p, "done")
       /\ sel' = [u \in AllOuts |-> IF u \in r.rel THEN 0 ELSE sel[u]]
       /\ released' = released \cup r.rel
       /\ UNCHANGED rec
(* the recovery goroutine takes the next rolled-back transaction whose producers have had their turn (a transaction
   that is confirmed meanwhile is skipped by the pool / validity checks of the submission itself) *)
RecNext(p) ==
  /\ pc[p] = "rec_next"
  /\ \E t \in ReadyRec(rec[p].todo) : rec' = [rec EXCEPT ![p] = [todo |-> @.todo \ {t}, cur |-> t]]
  /\ Goto(p, "rec_verify")
  /\ ki' = [ki EXCEPT ![p] = 0] /\ held' = [held EXCEPT ![p] = <<>>]
  /\ UNCHANGED <<sc, lm, ref, rwR, rwWait, sel, scan, db, res, released>>
PlayBegin(p) ==
  /\ pc[p] = "begin" /\ Excl(Req(p))
  /\ IF rwR = {} /\ rwWait = {} THEN DoExcl(p) /\ UNCHANGED rwWait
     ELSE rwWait' = rwWait \cup {p} /\ Goto(p, "wlock") /\ UNCHANGED <<db, res, sel, released, rec>>
  /\ UNCHANGED <<sc, ki, held, lm, ref, rwR, scan>>
WAcquire(p) ==
  /\ pc[p] = "wlock" /\ rwR = {}
  /\ DoExcl(p) /\ rwWait' = rwWait \ {p}
  /\ UNCHANGED <<sc, ki, held, lm, ref, rwR, scan>>

Step(p) == \/ Verify(p) \/ AcquireR(p) \/ EnterTryLock(p) \/ TryKey(p) \/ RefAdd(p) \/ CheckPool(p) \/ VerifyAndApply(p)
           \/ BatchWrite(p) \/ Publish(p) \/ EnterUnlock(p) \/ UnlockKey(p) \/ DeleteKey(p)
           \/ SelScan(p) \/ SelUnlock(p) \/ PlayBegin(p) \/ WAcquire(p) \/ RecNext(p)
(* the key a parked process is about to work on (part of the label) *)
KeyAt(p) == IF pc[p] \in {"trylock_key", "trylock_first_before_add", "trylock_shared_before_add"} THEN LK[T(p)][ki[p]].k
            ELSE IF pc[p] \in {"unlock_key", "unlock_shared_before_delete"} THEN held[p][ki[p]].k ELSE ""
AllDone == \A p \in Procs : pc[p] = "done"
(* a writer whose Lock() has just been granted is already running *)
Granted == {p \in Procs : pc[p] = "wlock" /\ rwR = {}}
Movers == IF Granted # {} THEN Granted ELSE Procs
Log(p) == hist' = IF LogOn THEN Append(hist, <<p, pc'[p], KeyAt(p)'>>) ELSE hist
Next == \/ \E p \in Movers : Step(p) /\ Log(p)
        \/ AllDone /\ UNCHANGED vars
Spec == Init /\ [][Next]_vars
FairSpec == Spec /\ WF_vars(Next)

-----------------------------------------------------------------------------
(* ---- outcome of a run: result classes and final observables -------------------------------------- *)
ObsOfDb(s) == [utxo |-> s.utxo, ver |-> s.ver, pool |-> s.pool, total |-> s.total, ptr |-> s.ptr]
Bal(s, a) == SumAmt({u \in s.utxo : Owner(u) = a})
RECURSIVE PermSeqs(_)
PermSeqs(S) == IF S = {} THEN {<<>>} ELSE UNION {{<<x>> \o q : q \in PermSeqs(S \ {x})} : x \in S}
Sharers(scn, k) == {p \in DOMAIN scn : ReqDef[scn[p]].ty = "dotx" /\ \E x \in LockSet(ReqDef[scn[p]].t) : x.k = k /\ x.m = "S"}
Writers(scn, k) == {p \in DOMAIN scn : ReqDef[scn[p]].ty = "dotx" /\ \E x \in LockSet(ReqDef[scn[p]].t) : x.k = k /\ x.m = "X"}
(* keys on which the reference-count protocol can break at all: two sharers and a writer among the requests *)
RaceKeys(scn) == {k \in Keys : Cardinality(Sharers(scn, k)) >= 2 /\ Writers(scn, k) # {}}

(* The outcome (R: process -> [c, outs], O: final observables) equals the result of SOME one-at-a-time order:
   the requests with an effect (admitted transactions, successful plays and walks) applied in some order give
   exactly O; every refused request is refused in at least one of the states on the way (it has no effect, so it can
   be placed there).  Weaker reading (R6) for the try-lock: a transaction may be refused as "busy" (ErrDoubleSpent
   from TryLock) whenever another request of the run asks for a conflicting lock key, and a selection may fail
   or skip outputs while another selector of the same address is in flight (its locks are released again).
   A walk is, one at a time, its exclusive part (roll back the pool, play the block) followed by one re-submission
   per rolled-back transaction; the re-submissions are requests of their own (the code hands them to a goroutine
   and returns): each takes place somewhere after the walk, producers before consumers, and re-admits the
   transaction if it is (still) valid there - or drops it, which under contention for its lock keys may also happen
   to a valid one (R6).  The state between roll-back and block is a state on the way as well (a verification outside
   the locks may see it).  "hang" and "panic" are explained by nothing.
   waived: keys whose version check is not demanded (known deviation only). *)
LastOf(q) == q[Len(q)]
(* configurations of the one-at-a-time machine with walks: [sts: states on the way, rec: transactions awaiting re-submission] *)
ResubCfg(c, t, Cont) ==
  LET s == LastOf(c.sts)
      adm == IF t \notin s.pool /\ Valid(s, t) THEN {Apply(s, t)} ELSE {}
      drop == IF adm = {} \/ t \in Cont THEN {s} ELSE {} IN
  {[sts |-> Append(c.sts, s2), rec |-> c.rec \ {t}] : s2 \in adm \cup drop}
RECURSIVE RecClose(_, _)
RecClose(c, Cont) == {c} \cup UNION {UNION {RecClose(c2, Cont) : c2 \in ResubCfg(c, t, Cont)} : t \in ReadyRec(c.rec)}
OutcomeOK(scn, R, O, waived) ==
  LET P == DOMAIN scn
      rq(p) == ReqDef[scn[p]]
      (* the same transaction submitted twice: a transaction without any exclusive key (it only reads: no input, no
         output, no write) changes nothing, its submissions share every lock and may both pass the pool check; the
         second "admit" is then accepted like the refusal as a duplicate (the effect is the same: pending once) *)
      dupAdmit(p) == /\ rq(p).ty = "dotx" /\ R[p].c = "admit" /\ \A x \in LockSet(rq(p).t) : x.m = "S"
                     /\ \E q \in P : q < p /\ scn[q] = scn[p] /\ R[q].c = "admit"
      Eff == {p \in P : (rq(p).ty = "dotx" /\ R[p].c = "admit" /\ ~dupAdmit(p)) \/ (Excl(rq(p)) /\ R[p].c = "ok")}
      hasWalk == \E p \in P : rq(p).ty = "walk"
      dotxOK(s, p) == rq(p).t \notin s.pool /\ TokenOK(s, rq(p).t) /\ ReadsOKW(s, rq(p).t, waived)
      exec(s, p) == IF rq(p).ty = "play" THEN PlaySeq(s, rq(p).b)
                    ELSE IF dotxOK(s, p) THEN [ok |-> TRUE, s |-> Apply(s, rq(p).t)] ELSE [ok |-> FALSE, s |-> s]
      run(pi) == FoldLeft(LAMBDA acc, p : IF ~acc.ok THEN acc
                                          ELSE LET r == exec(acc.sts[Len(acc.sts)], p) IN
                                               IF r.ok THEN [ok |-> TRUE, sts |-> Append(acc.sts, r.s)] ELSE [acc EXCEPT !.ok = FALSE],
                          [ok |-> TRUE, sts |-> <<Start(FamOf(scn))>>], pi)
      refusedOK(sts, p) ==
        CASE R[p].c \in {"hang", "panic", "-"} -> FALSE
          [] R[p].c = "other" -> TRUE
          [] rq(p).ty = "dotx" /\ R[p].c = "stale" -> \E i \in DOMAIN sts : rq(p).t \in sts[i].pool \/ ~Valid(sts[i], rq(p).t)
          [] rq(p).ty = "dotx" /\ R[p].c = "busy" ->
               \/ \E q \in P \ {p} : rq(q).ty = "dotx" /\ LockConflict(rq(p).t, rq(q).t)
               (* the recovery of a walk holds the lock keys of the transaction it is re-submitting: the prelude's too *)
               \/ hasWalk /\ \E t \in Range(Fam[FamOf(scn)].pre) : LockConflict(rq(p).t, t)
          [] rq(p).ty = "play" /\ R[p].c = "fail" -> \E i \in DOMAIN sts : ~PlaySeq(sts[i], rq(p).b).ok
          [] rq(p).ty = "walk" /\ R[p].c = "fail" -> \E i \in DOMAIN sts : ~WalkCore(sts[i], rq(p).b).ok
          [] rq(p).ty = "sel" ->
               LET others == {q \in P \ {p} : rq(q).ty = "sel" /\ rq(q).lk /\ rq(q).a = rq(p).a}
                   (* an undo (play, walk) releases the selection locks of the outputs the undone transaction had spent *)
                   free == IF \E q \in P : Excl(rq(q))
                           THEN UNION {TX[t].ins : t \in {rq(q).t : q \in {q \in P : rq(q).ty = "dotx"}} \cup Range(Fam[FamOf(scn)].pre)}
                           ELSE {}
                   ever == UNION {sts[i].utxo : i \in DOMAIN sts}
                   always == {u \in ever : \A i \in DOMAIN sts : u \in sts[i].utxo} IN
               IF R[p].c = "ok"
               THEN /\ R[p].outs \subseteq {u \in ever : Owner(u) = rq(p).a}
                    /\ SumAmt(R[p].outs) >= rq(p).need
                    /\ \E u \in R[p].outs : SumAmt(R[p].outs) - Amt(u) < rq(p).need
                    /\ rq(p).lk => \A q \in others : R[q].c = "ok" => R[q].outs \cap R[p].outs \subseteq free
               ELSE R[p].c = "nomoney" /\ (others # {} \/ SumAmt({u \in always : Owner(u) = rq(p).a}) < rq(p).need)
          [] OTHER -> p \in Eff \/ dupAdmit(p)
      plain == \E pi \in PermSeqs(Eff) : \E r \in {run(pi)} :
                  /\ r.ok
                  /\ ObsOfDb(r.sts[Len(r.sts)]) = O
                  /\ \A p \in P : refusedOK(r.sts, p)
      (* with a walk among the requests *)
      Cont == {t \in DOMAIN TX : \E q \in P : rq(q).ty = "dotx" /\ LockConflict(t, rq(q).t)}
      close(c, atomic) == IF ~atomic THEN RecClose(c, Cont)
                          ELSE IF c.rec = {} THEN {c}
                          ELSE {[sts |-> Append(c.sts, f), rec |-> {}] : f \in RecAll(LastOf(c.sts), c.rec)}
      stepCfg(c, p, atomic) ==
        LET s == LastOf(c.sts) IN
        IF rq(p).ty = "walk"
        THEN LET w == WalkCore(s, rq(p).b) IN
             IF ~w.ok THEN {} ELSE close([sts |-> c.sts \o <<w.mid, w.s>>, rec |-> c.rec \cup w.rec], atomic)
        ELSE LET r == exec(s, p) IN IF ~r.ok THEN {} ELSE close([sts |-> Append(c.sts, r.s), rec |-> c.rec], atomic)
      runW(pi, atomic) == FoldLeft(LAMBDA C, p : UNION {stepCfg(c, p, atomic) : c \in C},
                                   {[sts |-> <<Start(FamOf(scn))>>, rec |-> {}]}, pi)
      withWalk(atomic) == \E pi \in PermSeqs(Eff) : \E c \in runW(pi, atomic) :
                             /\ c.rec = {}
                             /\ ObsOfDb(LastOf(c.sts)) = O
                             /\ \A p \in P : refusedOK(c.sts, p) IN
  IF hasWalk THEN withWalk(TRUE) \/ withWalk(FALSE) ELSE plain

(* selection locks at the end of the run (free: the outputs a selection WITHOUT locking is offered, i.e. the unlocked
   ones): an output that is still locked has been handed to a successful locking selector of the run (a selection
   that fails gives back what it took); without any undo (play, walk) what was handed out is still locked *)
SelLocksOK(scn, R, O, free) ==
  LET P == DOMAIN scn
      lockers == {p \in P : ReqDef[scn[p]].ty = "sel" /\ ReqDef[scn[p]].lk /\ R[p].c = "ok"}
      handed == UNION {R[p].outs : p \in lockers}
      undo == \E p \in P : Excl(ReqDef[scn[p]]) IN
  /\ \A u \in O.utxo \ free : u \in handed
  /\ ~undo => \A u \in O.utxo \cap handed : u \notin free

(* after the run every DoTx request is issued once more, one at a time (State.DoTx directly): none may be refused
   for a lock (a lock that was not released), each behaves as on the final state *)
EpilogueOK(scn, O, E, O2) ==
  LET dos == SelectSeq(Idx(Len(scn)), LAMBDA p : ReqDef[scn[p]].ty = "dotx")
      r == FoldLeft(LAMBDA acc, i :
                      LET t == ReqDef[scn[dos[i]]].t
                          exp == IF t \notin acc.s.pool /\ Valid(acc.s, t) THEN "admit" ELSE "stale" IN
                      IF E[i] = "other" THEN acc
                      ELSE IF E[i] # exp THEN [acc EXCEPT !.ok = FALSE]
                      ELSE IF exp = "admit" THEN [acc EXCEPT !.s = Apply(acc.s, t)] ELSE acc,
                    [ok |-> TRUE, s |-> O], Idx(Len(dos))) IN
  Len(E) = Len(dos) /\ r.ok /\ r.s = O2

(* ---- what the parked goroutines show (sequence of <<process, site, key>> actually reached) ---------- *)
ConflictKeys(t, u) == {x.k : x \in {x \in LockSet(t) : \E y \in LockSet(u) : x.k = y.k /\ (x.m = "X" \/ y.m = "X")}}
(* keys on which two processes were inside the critical window (between dotx_locked and the first unlock) at the
   same time with conflicting lock modes *)
OverlapKeys(scn, steps) ==
  FoldLeft(LAMBDA acc, e :
             LET p == e[1] IN
             IF e[2] = "dotx_locked"
             THEN [in |-> acc.in \cup {p},
                   bad |-> acc.bad \cup UNION {ConflictKeys(ReqDef[scn[p]].t, ReqDef[scn[q]].t) : q \in acc.in \ {p}}]
             ELSE IF e[2] \in {"unlock_key", "done"} THEN [acc EXCEPT !.in = @ \ {p}] ELSE acc,
           [in |-> {}, bad |-> {}], steps).bad
(* keys on which the window of the reference-count protocol was hit: one process parked between LoadOrStore and
   refCounter.Add while another is parked between refCounter.Release (= 0) and Delete *)
RaceWindowKeys(scn, steps) ==
  FoldLeft(LAMBDA acc, e :
             LET at2 == [acc.at EXCEPT ![e[1]] = <<e[2], e[3]>>]
                 hit == {k \in Keys : \E p, q \in DOMAIN scn :
                            /\ at2[p] \in {<<"trylock_shared_before_add", k>>, <<"trylock_first_before_add", k>>}
                            /\ at2[q] = <<"unlock_shared_before_delete", k>>} IN
             [at |-> at2, keys |-> acc.keys \cup hit],
           [at |-> [p \in DOMAIN scn |-> <<"begin", "">>], keys |-> {}], steps).keys

(* ---- invariants ------------------------------------------------------------------------------------ *)
CSSites == {"dotx_locked", "dotx_before_apply", "dotx_before_write", "dotx_after_write", "dotx_before_unlock"}
InCS(p) == pc[p] \in CSSites /\ Len(held[p]) = NK(p)          \* holds all its keys (a refused TryLock holds a proper prefix)
(* shared / exclusive exclusion per key while in the critical section *)
Exclusion == \A p, q \in Procs : (p # q /\ InCS(p) /\ InCS(q)) => ~LockConflict(T(p), T(q))
(* the admitted set is conflict-free: no two admitted transactions spend the same output or supersede the same
   key version (C03) *)
Admitted == db.pool \cup (IF db.ptr = 2 THEN Range(BlockOf[FamOf(sc)]) ELSE {})
ConflictFree == \A t, u \in Admitted : t # u =>
                   /\ TX[t].ins \cap TX[u].ins = {}
                   /\ \A k \in Keys : ~(TX[t].writes[k] # NoRd /\ TX[u].writes[k] # NoRd /\ TX[t].reads[k] = TX[u].reads[k])
(* an output selected with locking is held by at most one selector *)
LockSel(p) == Req(p).ty = "sel" /\ Req(p).lk
SelectorsDisjoint == \A p, q \in Procs : (p # q /\ LockSel(p) /\ LockSel(q)) =>
                        (scan[p].got \cup res[p].outs) \cap (scan[q].got \cup res[q].outs) \subseteq released
SelHeld == \A p \in Procs : LockSel(p) => \A u \in scan[p].got : sel[u] = p \/ u \in released
(* the final observable state equals the result of some serial order of the same requests *)
Serialisable == AllDone => OutcomeOK(sc, res, ObsOfDb(db), {})
(* nothing stays locked *)
Quiescent == AllDone => /\ \A k \in LockNames : lm[k] = None /\ ref[k] = 0
                        /\ rwR = {} /\ rwWait = {}
                        /\ \A u \in AllOuts : sel[u] # 0 => (res[sel[u]].c = "ok" /\ u \in res[sel[u]].outs)
                        /\ \A p \in Procs : (LockSel(p) /\ res[p].c = "ok") => \A u \in res[p].outs : sel[u] = p \/ u \in released
(* the lock table is a function of what the submissions hold (IDEAL protocol; spec/LockTable.tla is this reading of the
   table at the level of whole TryLock / Unlock calls, bound to the real SpinLock on its own) *)
HeldNow(p) == IF pc[p] \in {"done", "rec_next"} THEN <<>> ELSE IF pc[p] = "unlock_key" THEN SubSeq(held[p], 1, ki[p]) ELSE held[p]
HoldersOf(k, m) == {p \in Procs : \E i \in DOMAIN HeldNow(p) : HeldNow(p)[i].k = k /\ HeldNow(p)[i].m = m}
TableMatchesHeld == \A k \in LockNames :
                       LET X == HoldersOf(k, "X")
                           S == HoldersOf(k, "S") IN
                       /\ Cardinality(X) <= 1 /\ (X # {} => S = {})
                       /\ lm[k] = (IF X # {} THEN "X" ELSE IF S # {} THEN "S" ELSE None)
                       /\ ref[k] = Cardinality(S)
TypeOK == /\ \A k \in LockNames : lm[k] \in {None, "S", "X"} /\ ref[k] \in 0..Cardinality(Procs)
          /\ rwR \subseteq Procs /\ rwWait \subseteq Procs
(* liveness (config without state constraint): every request returns *)
Termination == <>AllDone
(* used by the "find" configurations: stop at the first complete run whose outcome is not serialisable *)
NotBad == ~(AllDone /\ ~OutcomeOK(sc, res, ObsOfDb(db), {}))

View == <<sc, pc, ki, held, lm, ref, rwR, rwWait, sel, scan, db, res, released, rec>>

-----------------------------------------------------------------------------
(* ---- footprints (generation only): which adjacent steps commute ----------------------------------- *)
(* r: objects read, w: objects written, a: objects updated commutatively (reader count of the mutex) *)
DbObjs(t) == {<<"u", x[1], x[2]>> : x \in TX[t].ins \cup OutIds(t)} \cup {<<"k", k, 0>> : k \in {k \in Keys : TX[t].writes[k] # NoRd}}
             \cup {<<"a", Owner(x), 0>> : x \in TX[t].ins \cup OutIds(t)}
DbReads(t) == {<<"u", x[1], x[2]>> : x \in TX[t].ins} \cup {<<"k", k, 0>> : k \in {k \in Keys : TX[t].reads[k] # NoRd}}
NoFoot == [r |-> {}, w |-> {}, a |-> {}, all |-> FALSE]
Foot(p) ==
  LET t == T(p)
      lastKey == (pc[p] = "dotx_before_unlock" /\ held[p] = <<>>) \/ (pc[p] \in {"unlock_key", "unlock_shared_before_delete"} /\ ki[p] = 1)
      rel == IF lastKey THEN {<<"rwr", "", 0>>} ELSE {} IN
  CASE Excl(Req(p)) -> [NoFoot EXCEPT !.all = TRUE]
    [] Req(p).ty = "sel" -> [NoFoot EXCEPT !.r = {<<"a", Req(p).a, 0>>}, !.w = {<<"sel", "", 0>>}]
    [] pc[p] = "begin" -> [NoFoot EXCEPT !.r = DbReads(t)]
    [] pc[p] = "verified" -> [NoFoot EXCEPT !.r = {<<"rww", "", 0>>}, !.a = {<<"rwr", "", 0>>}]
    [] pc[p] \in {"trylock_key", "trylock_first_before_add", "trylock_shared_before_add", "unlock_key", "unlock_shared_before_delete"} ->
         [NoFoot EXCEPT !.w = {<<"lk", KeyAt(p), 0>>}, !.a = rel]
    [] pc[p] = "dotx_locked" -> [NoFoot EXCEPT !.r = {<<"p", t, 0>>}]
    [] pc[p] = "dotx_before_apply" -> [NoFoot EXCEPT !.r = DbReads(t)]
    [] pc[p] = "dotx_before_write" -> [NoFoot EXCEPT !.w = DbObjs(t)]
    [] pc[p] = "dotx_after_write" -> [NoFoot EXCEPT !.w = {<<"p", t, 0>>} \cup {<<"a", Owner(x), 0>> : x \in OutIds(t)}]
    [] pc[p] = "dotx_before_unlock" -> [NoFoot EXCEPT !.a = rel]
    [] OTHER -> NoFoot
Dependent(f, g) == \/ f.all \/ g.all
                   \/ f.w \cap (g.r \cup g.w \cup g.a) # {}
                   \/ g.w \cap (f.r \cup f.w \cup f.a) # {}
=============================================================================
