--------------------------- MODULE Trace_BlockId ---------------------------
(* Trace validation: the ndjson trace recorded from the real code (Ledger.FormatMinerBlock, real   *)
(* protobuf mutations, Ledger.VerifyBlock, single / pow CheckMinerMatch, the public primitives)    *)
(* drives the actions of BlockId.  A line is explained if its observables / verdicts are what      *)
(* IDEAL allows, or what this instantiation (the KF_* constants set to TRUE) allows; in the second *)
(* case the deviations whose conjunct made the difference are recorded in dev.                     *)
EXTENDS BlockId, Json
VARIABLES l, div, dev
Trace == ndJsonDeserialize("trace.ndjson")
NoDiv == [at |-> 0]
tvars == <<vars, l, div, dev>>

TInit == Init /\ l = 1 /\ div = NoDiv /\ dev = {} /\ TLCSet(1, 1) /\ TLCSet(2, NoDiv) /\ TLCSet(3, {})

Seqs(r) == [v |-> SetToSeq(r.v), s |-> SetToSeq(r.s), w |-> SetToSeq(r.w)]
AllowedRec(K, b, o) == [v |-> AllowedV(K, b), s |-> AllowedS(K, b), w |-> AllowedW(K, b, o)]
In(r, a) == r.v \in a.v /\ r.s \in a.s /\ r.w \in a.w

(* observables of the public primitives after Format / Mutate *)
ObsStep(ev, b) ==
  LET i == ev.obs = ObsOf(K0, b)
      a == ev.obs = ObsOf(KC, b) IN
  /\ dev' = IF i \/ ~a THEN dev ELSE dev \cup DevOf(KC, b)
  /\ div' = IF i \/ a THEN NoDiv
            ELSE [at |-> l, tr |-> ev.tr, op |-> ev.op, expres |-> "-", actres |-> "-", exp |-> ObsOf(KC, b), act |-> ev.obs]
VerdictStep(ev) ==
  LET i == In(ev.res, AllowedRec(K0, blk, orig))
      a == In(ev.res, AllowedRec(KC, blk, orig)) IN
  /\ dev' = IF i \/ ~a THEN dev ELSE dev \cup DevOf(KC, blk)
  /\ div' = IF i \/ a THEN NoDiv
            ELSE [at |-> l, tr |-> ev.tr, op |-> ev.op, expres |-> "-", actres |-> "-",
                  exp |-> Seqs(AllowedRec(KC, blk, orig)), act |-> ev.res]

TStep ==
  /\ l <= Len(Trace) /\ div = NoDiv
  /\ LET ev == Trace[l] IN
     CASE ev.op = "reset"  -> Reset /\ div' = NoDiv /\ dev' = dev
       [] ev.op = "format" -> Format(ev.p) /\ ObsStep(ev, blk')
       [] ev.op = "mut"    -> Mutate(ev.m, ev.st) /\ ObsStep(ev, blk')
       [] ev.op = "verify" -> VerifyWith(ev.res) /\ VerdictStep(ev)
  /\ l' = l + 1
TSpec == TInit /\ [][TStep]_tvars

(* bookkeeping in TLC registers (needs -workers 1): 1 = highest line index reached without
   divergence, 2 = divergence with the longest explained prefix, 3 = deviations used *)
Book ==
  /\ (div = NoDiv /\ l > TLCGet(1)) => (TLCSet(1, l) /\ TLCSet(3, dev))
  /\ (div # NoDiv /\ (TLCGet(2) = NoDiv \/ TLCGet(2).at < div.at)) => TLCSet(2, div)
Post == JsonSerialize("result.json", <<[hw |-> TLCGet(1), len |-> Len(Trace), div |-> TLCGet(2), dev |-> SetToSeq(TLCGet(3))]>>)
=============================================================================
