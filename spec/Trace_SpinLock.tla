--------------------------- MODULE Trace_SpinLock ---------------------------
(* Validation of runs recorded from the real code (harness/cmd/c12) against SpinLock: one line per run        *)
(*   {op: "run", mode: gated | free, sc, steps (sites actually reached), res, obs, epi, obs2}.                 *)
(* A run is accepted (IDEAL) iff                                                                               *)
(*   - no two goroutines were inside the critical window at the same time with conflicting lock keys,         *)
(*   - the outcome (result classes, final observables) is the result of SOME one-at-a-time order of the same   *)
(*     requests: admitted set conflict-free, selections disjoint, no request hangs or panics (OutcomeOK),      *)
(*   - balances answered by the node (State.GetBalance: from its balance cache, which the driver has filled by   *)
(*     asking for every party's balance BEFORE the requests) are those of its unspent outputs (the raw utxo     *)
(*     table) AND those implied by the admitted set (genesis, awards, the pending transactions and the block):  *)
(*     a refused request - at whatever stage it was refused - leaves no trace in them,                          *)
(*   - the selection locks left behind are those of the outputs handed to successful locking selectors,        *)
(*   - the one-at-a-time epilogue (every transaction once more) behaves as on the final state (no lock left).  *)
(* ACTUAL: with KF_SharedLockRefCountRace a run in which the window of the reference-count protocol was hit    *)
(* on key k (gated: seen in the steps; free: two sharers and a writer of k among the requests) may overlap on  *)
(* k and admit transactions whose read version of k was already superseded.                                    *)
EXTENDS SpinLock, Json
VARIABLES l, div, devAll
Trace == ndJsonDeserialize("trace.ndjson")
NoDiv == [at |-> 0]
tvars == <<vars, l, div, devAll>>

Pairs(seq) == {<<r[1], r[2]>> : r \in ToSet(seq)}
ObsRec(o) == [utxo |-> Pairs(o.utxo), ver |-> o.ver, pool |-> ToSet(o.pool), total |-> o.total, ptr |-> o.ptr]
ResOf(ev) == [p \in 1..Len(ev.res) |-> [c |-> ev.res[p].c, outs |-> Pairs(ev.res[p].outs)]]
BalOK(o) == \A i \in 1..Len(Addrs) : o.bal[i] = Bal(ObsRec(o), Addrs[i])
(* the outputs the admitted set leaves unspent: computed from the pool and the tip alone, not from the utxo table *)
AdmittedUtxo(scn, o) ==
  LET A == ToSet(o.pool) \cup (IF o.ptr = 2 THEN Range(BlockOf[FamOf(scn)]) ELSE {})
      made == OutIds("g") \cup OutIds("aw1") \cup (IF o.ptr = 2 THEN OutIds("aw2") ELSE {}) \cup UNION {RealOuts(t) : t \in A} IN
  made \ UNION {TX[t].ins : t \in A}
BalAdmOK(scn, o) == /\ ToSet(o.pool) \subseteq DOMAIN TX
                    /\ \A i \in 1..Len(Addrs) : o.bal[i] = SumAmt({u \in AdmittedUtxo(scn, o) : Owner(u) = Addrs[i]})
(* before the requests: the prelude on block 1 *)
Bal0OK(scn, b) == \A i \in 1..Len(Addrs) : b[i] = Bal(Start(FamOf(scn)), Addrs[i])

Judge(ev) ==
  IF ev.op # "run" THEN [ok |-> FALSE, dev |-> {}, why |-> ev.op]
  ELSE
  LET scn == ev.sc
      R == ResOf(ev)
      O == ObsRec(ev.obs)
      over == OverlapKeys(scn, ev.steps)
      selOK == SelLocksOK(scn, R, O, Pairs(ev.obs.free))
      balOK == Bal0OK(scn, ev.bal0) /\ BalOK(ev.obs) /\ BalOK(ev.obs2) /\ BalAdmOK(scn, ev.obs) /\ BalAdmOK(scn, ev.obs2)
      rest == balOK /\ selOK /\ EpilogueOK(scn, O, ev.epi, ObsRec(ev.obs2))
      race == IF ~KF_SharedLockRefCountRace THEN {}
              ELSE IF ev.mode = "gated" THEN RaceWindowKeys(scn, ev.steps) ELSE RaceKeys(scn) IN
  IF over = {} /\ OutcomeOK(scn, R, O, {}) /\ rest THEN [ok |-> TRUE, dev |-> {}, why |-> ""]
  ELSE IF race # {} /\ over \subseteq race /\ OutcomeOK(scn, R, O, race) /\ rest
       THEN [ok |-> TRUE, dev |-> {"KF_SharedLockRefCountRace"}, why |-> ""]
  ELSE [ok |-> FALSE, dev |-> {},
        why |-> IF over # {} THEN "exclusion" ELSE IF ~OutcomeOK(scn, R, O, {}) THEN "outcome"
                ELSE IF ~Bal0OK(scn, ev.bal0) THEN "balance_before_the_requests"
                ELSE IF ~(BalOK(ev.obs) /\ BalOK(ev.obs2)) THEN "balance_vs_utxo_table"
                ELSE IF ~balOK THEN "balance_vs_admitted_set"
                ELSE IF ~selOK THEN "selection_lock" ELSE "epilogue"]

TInit == InitFor(<<"p2", "p3">>) /\ l = 1 /\ div = NoDiv /\ devAll = {} /\ TLCSet(1, 1) /\ TLCSet(2, NoDiv) /\ TLCSet(3, {})
TStep ==
  /\ l <= Len(Trace) /\ div = NoDiv
  /\ \E ev \in {Trace[l]} : \E j \in {Judge(ev)} :
       /\ devAll' = devAll \cup j.dev
       /\ div' = IF j.ok THEN NoDiv
                 ELSE [at |-> l, tr |-> ev.tr, op |-> ev.op, why |-> j.why]
  /\ l' = l + 1
  /\ UNCHANGED vars
TSpec == TInit /\ [][TStep]_tvars
Book == /\ (div = NoDiv /\ l > TLCGet(1)) => TLCSet(1, l)
        /\ (div # NoDiv /\ (TLCGet(2) = NoDiv \/ TLCGet(2).at < div.at)) => TLCSet(2, div)
        /\ TLCSet(3, TLCGet(3) \cup devAll)
Post == TLCGet("distinct") >= 0 /\
        JsonSerialize("result.json", <<[hw |-> TLCGet(1), len |-> Len(Trace), div |-> TLCGet(2), dev |-> SetToSeq(TLCGet(3))]>>)
=============================================================================
