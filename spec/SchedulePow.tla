---------------------------- MODULE SchedulePow ----------------------------
(***************************************************************************)
(* C16, proof-of-work part: a block is accepted only with a header hash    *)
(* not above the target that the chain's own history prescribes and a      *)
(* timestamp not before its parent's.                                      *)
(*                                                                         *)
(* Written like bcs/consensus/pow: pow.go CheckMinerMatch, IsProofed,      *)
(* refreshDifficulty (retarget every `gap` blocks, time span clamped to    *)
(* /4 .. x4, floor target "maxTarget"), common.go GetCompact / SetCompact. *)
(*                                                                         *)
(* Numbers.  TLC integers are 32 bit, targets are 256 bit.                 *)
(*  - chain model: compact targets <<size, word>> with size 3..4, i.e.     *)
(*    values below 2^31; the harness runs every chain with sizes shifted   *)
(*    by K bytes (K = 0 and a realistic K): for values >= 2^16 the code's  *)
(*    arithmetic commutes with the shift (value * 256^K), see DESIGN C16.  *)
(*  - compact sweep: all sizes; a big number is represented as m * 256^e   *)
(*    with m below 2^31 and without trailing zero bytes.                   *)
(*  - the hash of a candidate is given relative to the target it declares  *)
(*    (hrel = hash - target in {-1, 0, +1}); the specification only needs  *)
(*    the order.                                                           *)
(* Time: chain timestamps in quarter seconds (q); the code divides the     *)
(* nanosecond difference by 1e9, i.e. (q1 - q0) \div 4.                     *)
(*                                                                         *)
(* Forks.  "Its parent" and "the chain's own history" are those of the     *)
(* CANDIDATE, not of the node's current tip.  A candidate names its parent *)
(* (field par of a candidate record):                                      *)
(*   "tip"    the tip of the current chain (mining, normal propagation)    *)
(*   "comp"   the tip's parent: a competitor of the tip                    *)
(*   "sibN"   a stored competitor S of the tip stamped half a second AFTER *)
(*            the tip (a one-block side branch newer than the tip)         *)
(*   "sibO"   a stored competitor S of the tip stamped like its own parent *)
(*            (not newer than the tip)                                     *)
(*   "side"   the tip of the stored side branch `side` (another chain from *)
(*            the genesis block the node has stored: the chain it followed *)
(*            before it switched), "side1" that block's parent             *)
(*   "orphan" a block the node has never seen: no history, no parent       *)
(*            timestamp - never acceptable                                 *)
(* The ancestry Anc of the parent (genesis excluded) gives the parent's    *)
(* timestamp and, through ExpectedBits / Prescribed, the target the        *)
(* candidate has to declare; the current tip plays no part (TsOk, PowClass, *)
(* AcceptOnlyEntitled).                                                    *)
(***************************************************************************)
EXTENDS Integers, Sequences, FiniteSets, TLC, SequencesExt

CONSTANTS Modes,          \* subset of {"btc", "legacy", "compact"}
          Gaps,           \* adjustHeightGap values
          ExtraLen,       \* chains grow to 2 * gap + ExtraLen blocks
          Seed,           \* selects the pseudo-random part of the compact sweep
          NRand,          \* number of pseudo-random words / numbers in the sweep
          KeepHist,
          KF_PowGrandparentBits,  \* known-finding deviation (see ExpectedBits)
          Sides           \* model checking: names of the stored side branches tried (SideBox); {} = none stored

VARIABLES pc,       \* configuration
          chain,    \* blocks 1..Len(chain): [q |-> timestamp, bits |-> compact target]; the genesis block has q = 0
          side,     \* a stored side branch: another chain from the genesis block, same shape (<<>>: none)
          ci,       \* compact sweep: number of cases evaluated
          hist
vars == <<pc, chain, side, ci, hist>>

-----------------------------------------------------------------------------
(* common.go *)
Pow256(k) == CASE k = 0 -> 1 [] k = 1 -> 256 [] k = 2 -> 65536 [] k = 3 -> 16777216
ByteLen(x) == IF x = 0 THEN 0 ELSE IF x < 256 THEN 1 ELSE IF x < 65536 THEN 2 ELSE IF x < 16777216 THEN 3 ELSE 4
SignBit == 8388608        \* 0x00800000

(* SetCompact on the small domain (size <= 4): value, negative, overflow.  As in the code the flags   *)
(* are computed from the shifted word (nWord and u are the same big.Int).                              *)
SetCompact(c) ==
  LET size == c[1]
      mant == c[2] % SignBit
      u    == IF size <= 3 THEN mant \div Pow256(3 - size) ELSE mant * Pow256(size - 3)
  IN [v |-> u, neg |-> u # 0 /\ c[2] >= SignBit, ovf |-> FALSE]       \* overflow needs size > 32

(* GetCompact for 0 <= n < 2^31 *)
GetCompact(n) ==
  LET nSize == ByteLen(n)
      c0 == IF nSize <= 3 THEN n * Pow256(3 - nSize) ELSE n \div Pow256(nSize - 3)
  IN IF c0 >= SignBit THEN <<nSize + 1, c0 \div 256>> ELSE <<nSize, c0>>

(* The same two functions for all sizes, a number being m * 256^e (Canon strips trailing zero bytes). *)
RECURSIVE Canon(_, _)
Canon(m, e) == IF m = 0 THEN [m |-> 0, e |-> 0] ELSE IF m % 256 = 0 THEN Canon(m \div 256, e + 1) ELSE [m |-> m, e |-> e]
SetCompactME(size, word) ==
  LET mant == word % SignBit
      m0 == IF size <= 3 THEN mant \div Pow256(3 - size) ELSE mant
      e0 == IF size <= 3 THEN 0 ELSE size - 3
      nz == m0 # 0
      gtFF   == nz /\ (e0 >= 1 \/ m0 > 255)                               \* shifted word > 0xff
      gtFFFF == nz /\ (e0 >= 2 \/ (e0 = 1 /\ m0 > 255) \/ m0 > 65535)     \* shifted word > 0xffff
      cn == Canon(m0, e0)
  IN [m |-> cn.m, e |-> cn.e, neg |-> nz /\ word >= SignBit,
      ovf |-> nz /\ (size > 34 \/ (gtFF /\ size > 33) \/ (gtFFFF /\ size > 32))]
GetCompactME(m, e) ==       \* m < 2^31, ByteLen(m) + e <= 255
  LET B == ByteLen(m)
      nSize == IF m = 0 THEN 0 ELSE B + e
      c0 == IF B <= 3 THEN m * Pow256(3 - B) ELSE m \div Pow256(B - 3)
  IN IF c0 >= SignBit THEN <<nSize + 1, c0 \div 256>> ELSE <<nSize, c0>>

RECURSIVE BitLen(_)
BitLen(x) == IF x = 0 THEN 0 ELSE 1 + BitLen(x \div 2)
RECURSIVE Pow2(_)
Pow2(k) == IF k = 0 THEN 1 ELSE 2 * Pow2(k - 1)

-----------------------------------------------------------------------------
(* configurations *)
PCfg(mode, gap, period, def, floor) == [mode |-> mode, gap |-> gap, period |-> period, def |-> def, floor |-> floor]
PowBox == (IF "btc" \in Modes THEN {PCfg("btc", g, 2, <<3, 262144>>, <<3, 65536>>) : g \in Gaps} ELSE {})
          \cup (IF "legacy" \in Modes THEN {PCfg("legacy", g, IF g = 2 THEN 4 ELSE 2, <<0, 10>>, <<0, 12>>) : g \in Gaps} ELSE {})
          \cup (IF "compact" \in Modes THEN {PCfg("compact", 0, 0, <<0, 0>>, <<0, 0>>)} ELSE {})
Chainy(c) == c.mode \in {"btc", "legacy"}
MaxLen(c) == 2 * c.gap + ExtraLen
Deltas(c) == {1, 4 * c.period, 16 * c.period + 4, 25 * c.period}   \* quarter seconds: near-simultaneous, nominal, just beyond the upper clamp (4 x expected + 1 s for gap 2), very slow

Q(ch, h) == IF h = 0 THEN 0 ELSE ch[h].q

(* refreshDifficulty: the retarget computation from the "previous" target and the time span *)
Retarget(c, prevBits, spanQ) ==
  LET expected == c.period * (c.gap - 1)
      actual0  == spanQ \div 4
      a1 == IF actual0 < expected \div 4 THEN expected \div 4 ELSE actual0
      a2 == IF a1 > expected * 4 THEN expected * 4 ELSE a1
  IN IF c.mode = "btc"
     THEN LET d == (SetCompact(prevBits).v * a2) \div expected IN
          IF d < SetCompact(c.floor).v THEN c.floor ELSE GetCompact(d)
     ELSE LET d == (Pow2(prevBits[2]) * expected) \div a2      \* the box keeps a2 > 0 (expected >= 4)
              nb == BitLen(d) - 1
          IN <<0, IF nb > c.floor[2] THEN c.floor[2] ELSE nb>>

(* refreshDifficulty(tipHash, nextHeight): the target of the block at height h on chain ch.         *)
(* IDEAL (gp = FALSE): the previous target is the parent's, the time span ends at the parent.       *)
(* The code reads both one block too far back: from the parent OF the tip ("preBlock"), so the      *)
(* target of h is the one of h - 2 (deviation KF_PowGrandparentBits, gp = TRUE).                     *)
ExpectedBits(c, ch, h, gp) ==
  IF h <= c.gap THEN c.def
  ELSE LET b == IF gp THEN h - 2 ELSE h - 1 IN
       IF h % c.gap # 0 THEN ch[b].bits
       ELSE Retarget(c, ch[b].bits, Q(ch, b) - Q(ch, b - (c.gap - 1)))

(* IsProofed(blockid, bits) for a hash at distance hrel from the target that bits encode *)
Proofed(c, bits, hrel) ==
  IF c.mode = "btc"
  THEN LET sc == SetCompact(bits) IN ~sc.neg /\ ~sc.ovf /\ ~(sc.v < SetCompact(c.floor).v) /\ hrel <= 0
  ELSE hrel <= 0

(* Candidate blocks.  par names the parent (see the head of the module), bsel how the declared target  *)
(* is chosen (the recorded trace carries the concrete bits), tsel the timestamp - relative to the      *)
(* PARENT's ("after" = 1 ns later, "same", "before" = 1 ns earlier) or to the TIP's ("tip+" = 1 ns     *)
(* after the tip, "tip-" = 1 ns before it) -, hrel the hash relative to the declared target, sig /     *)
(* idok / pk the signature, id and public-key consistency.                                             *)
CandRec(b, t, h, s, i, p) == [par |-> "tip", bsel |-> b, tsel |-> t, hrel |-> h, sig |-> s, idok |-> i, pk |-> p]
Good == CandRec("exp", "after", 0, "ok", TRUE, "match")
On(par, b, t) == [Good EXCEPT !.par = par, !.bsel = b, !.tsel = t]
TipCands == <<
  Good,
  [Good EXCEPT !.hrel = -1], [Good EXCEPT !.hrel = 1],
  [Good EXCEPT !.tsel = "same"], [Good EXCEPT !.tsel = "before"],
  [Good EXCEPT !.sig = "bad"], [Good EXCEPT !.idok = FALSE], [Good EXCEPT !.pk = "other"],
  [Good EXCEPT !.bsel = "def"], [Good EXCEPT !.bsel = "floor"], [Good EXCEPT !.bsel = "par"],
  [Good EXCEPT !.bsel = "easy"], [Good EXCEPT !.bsel = "easy", !.hrel = -1],
  [Good EXCEPT !.bsel = "hard"], [Good EXCEPT !.bsel = "hard", !.hrel = -1],
  [Good EXCEPT !.tsel = "same", !.hrel = -1], [Good EXCEPT !.tsel = "before", !.hrel = -1],
  [Good EXCEPT !.tsel = "same", !.hrel = 1], [Good EXCEPT !.bsel = "def", !.hrel = 1],
  [Good EXCEPT !.bsel = "par", !.tsel = "same"], [Good EXCEPT !.bsel = "floor", !.hrel = -1] >>
(* candidates whose parent is NOT the tip.  Target selectors available without asking anybody: "tipb" the tip's own  *)
(* bits (what was prescribed for a block with the tip's parent at the tip's height), "par" / "gpar" the bits of the   *)
(* candidate's parent / grandparent, "exp" what the miner is told for the TIP's child, "def".                         *)
ForkCands == <<
  \* a competitor of the tip: between its parent and the tip, equal to its parent, before its parent, around the tip
  On("comp", "tipb", "after"), On("comp", "tipb", "same"), On("comp", "tipb", "before"),
  On("comp", "tipb", "tip+"), On("comp", "tipb", "tip-"), On("comp", "def", "after"),
  [On("comp", "tipb", "after") EXCEPT !.hrel = 1],
  \* a child of a stored competitor that is newer than the tip
  On("sibN", "par", "after"), On("sibN", "par", "before"), On("sibN", "par", "tip+"),
  On("sibN", "gpar", "after"), On("sibN", "gpar", "before"), On("sibN", "gpar", "tip+"),
  On("sibN", "exp", "after"), On("sibN", "exp", "before"), On("sibN", "exp", "tip+"),
  On("sibN", "def", "after"), On("sibN", "def", "before"),
  \* a child of a stored competitor that is not newer than the tip
  On("sibO", "par", "after"), On("sibO", "par", "same"), On("sibO", "par", "before"), On("sibO", "par", "tip-"),
  On("sibO", "gpar", "after"), On("sibO", "gpar", "before"), On("sibO", "gpar", "tip-"),
  On("sibO", "exp", "after"), On("sibO", "exp", "before"), On("sibO", "exp", "tip-"),
  On("sibO", "def", "after"),
  \* a child of the tip of the stored side branch, and of that block's parent
  On("side", "par", "after"), On("side", "par", "before"), On("side", "par", "tip+"), On("side", "par", "tip-"),
  On("side", "gpar", "after"), On("side", "gpar", "before"), On("side", "gpar", "tip+"), On("side", "gpar", "tip-"),
  On("side", "def", "after"),
  On("side1", "par", "after"), On("side1", "par", "before"), On("side1", "par", "tip+"),
  On("side1", "gpar", "after"), On("side1", "gpar", "before"), On("side1", "gpar", "tip+"),
  \* a child (height of the tip + 1) of a block the node does not know
  On("orphan", "def", "tip+"), On("orphan", "exp", "tip+"), On("orphan", "def", "tip-") >>
CandList == TipCands \o ForkCands

(* the ancestry of a candidate's parent: the blocks from height 1 up to the parent (<<>>: the parent is the genesis block) *)
\* (Front(ch) of SequencesExt: all but the last block)
HasPar(ch, sd, par) == CASE par \in {"tip", "orphan"} -> TRUE
                         [] par \in {"comp", "sibN", "sibO"} -> Len(ch) >= 1
                         [] par = "side"  -> Len(sd) >= 1
                         [] par = "side1" -> Len(sd) >= 2
Anc(ch, sd, par) == CASE par = "tip"   -> ch
                      [] par = "comp"  -> Front(ch)
                      [] par = "sibN"  -> Append(Front(ch), [q |-> ch[Len(ch)].q + 2, bits |-> ch[Len(ch)].bits])
                      [] par = "sibO"  -> Append(Front(ch), [q |-> Q(ch, Len(ch) - 1), bits |-> ch[Len(ch)].bits])
                      [] par = "side"  -> sd
                      [] par = "side1" -> Front(sd)
(* the timestamp rule: not before the PARENT's.  Timestamps given relative to the tip are compared through the    *)
(* quarter-second stamps of tip and parent (1 ns is less than a quarter second).                                  *)
TsOk(ch, anc, tsel) == CASE tsel \in {"after", "same"} -> TRUE
                         [] tsel = "before" -> FALSE
                         [] tsel = "tip+" -> Q(ch, Len(ch)) >= Q(anc, Len(anc))
                         [] tsel = "tip-" -> Q(ch, Len(ch)) > Q(anc, Len(anc))

(* the concrete declared bits of a selector (generation; the harness does the same on the real chain) *)
SelBits(c, ch, sd, k) ==
  IF ~HasPar(ch, sd, k.par) THEN c.def ELSE
  LET anc == Anc(ch, sd, k.par)
      e == ExpectedBits(c, ch, Len(ch) + 1, FALSE)
      sel == k.bsel IN
  CASE sel = "exp"   -> e
    [] sel = "def"   -> c.def
    [] sel = "floor" -> c.floor
    [] sel = "par"   -> IF Len(anc) = 0 THEN c.def ELSE anc[Len(anc)].bits
    [] sel = "gpar"  -> IF Len(anc) <= 1 THEN c.def ELSE anc[Len(anc) - 1].bits
    [] sel = "tipb"  -> ch[Len(ch)].bits
    [] sel = "easy"  -> IF c.mode = "btc" THEN <<e[1], IF e[2] * 2 >= SignBit THEN SignBit - 1 ELSE e[2] * 2>> ELSE <<0, e[2] - 1>>
    [] sel = "hard"  -> IF c.mode = "btc" THEN <<e[1], e[2] \div 2>> ELSE <<0, e[2] + 1>>

(* PoWConsensus.CheckMinerMatch, in the code's order; anc = the ancestry of the candidate's parent, ch the node's    *)
(* current chain (it only places the timestamps that are given relative to the tip)                                 *)
PowClass(c, ch, anc, k, bits, gp) ==
  IF ~Proofed(c, bits, k.hrel) THEN "rej"                                \* IsProofed(blockid, declared bits)
  ELSE IF ~k.idok THEN "rej"                                             \* MakeBlockId() # blockid
  ELSE IF bits # ExpectedBits(c, anc, Len(anc) + 1, gp) THEN "rej"       \* refreshDifficulty(PreHash, height) # declared bits
  ELSE IF ~TsOk(ch, anc, k.tsel) THEN "rej"                              \* timestamp < QueryBlock(PreHash)'s
  ELSE IF k.pk # "match" THEN "rej"                                      \* address # address of the public key
  ELSE IF k.sig # "ok" THEN "rej" ELSE "ok"                              \* VerifyECDSA

CandBits(c, ch, sd) == [i \in 1..Len(CandList) |-> SelBits(c, ch, sd, CandList[i])]
(* "na": the candidate's parent does not exist in this state (nothing is submitted).  CandAccN: the first n           *)
(* candidates of the list (a recorded step may have submitted the tip candidates only).                               *)
CandAccN(c, ch, sd, cb, gp, n) == [i \in 1..n |->
                                 IF CandList[i].par = "orphan" THEN "rej"       \* QueryBlock(PreHash) fails
                                 ELSE IF HasPar(ch, sd, CandList[i].par)
                                 THEN PowClass(c, ch, Anc(ch, sd, CandList[i].par), CandList[i], cb[i], gp) ELSE "na"]
CandAcc(c, ch, sd, cb, gp) == CandAccN(c, ch, sd, cb, gp, Len(CandList))

-----------------------------------------------------------------------------
(* compact sweep cases *)
Words == {0, 1, 127, 128, 255, 256, 32767, 32768, 65535, 65536, 65537, 8388607, 8388608, 8388609, 8388736, 16777215, 8454144, 4194304, 1193046}
         \cup {(Seed * 7919 + k * 2654435) % 16777216 : k \in 1..NRand}
Sizes == 0..40 \cup {64, 127, 128, 200, 255}
Nums == {0, 1, 127, 128, 255, 256, 32767, 32768, 65535, 65536, 8388607, 8388608, 8388609, 16777215, 16777216, 2147483647, 2139095040, 305419896}
        \cup {(Seed * 104729 + k * 2654435) % 2147483647 : k \in 1..NRand}
Exps == 0..34 \cup {100, 250}
SetCases == {[op |-> "setc", size |-> s, word |-> w] : s \in Sizes, w \in Words}
GetCases == {[op |-> "getc", m |-> n, e |-> e] : n \in Nums, e \in Exps}
CompactSeq == SetToSeq(SetCases) \o SetToSeq({g \in GetCases : ByteLen(g.m) + g.e <= 255})
CompactRes(k) ==
  IF k.op = "setc" THEN SetCompactME(k.size, k.word)
  ELSE [bits |-> GetCompactME(k.m, k.e), ok |-> TRUE]

-----------------------------------------------------------------------------
Log(e) == hist' = IF KeepHist THEN Append(hist, e) ELSE hist
PCfgEvent(c) == [op |-> "cfg", cfg |-> c, cands |-> IF Chainy(c) THEN CandList ELSE <<>>]

(* stored side branches for model checking: chains built by the IDEAL rule from fixed block intervals *)
RECURSIVE Build(_, _, _)
Build(c, ch, ds) == IF ds = <<>> THEN ch
                    ELSE Build(c, Append(ch, [q |-> Q(ch, Len(ch)) + ds[1], bits |-> ExpectedBits(c, ch, Len(ch) + 1, FALSE)]), Tail(ds))
SideChain(c, name) == CASE name = "slow"  -> Build(c, <<>>, [i \in 1..MaxLen(c) |-> 25 * c.period])
                        [] name = "fast"  -> Build(c, <<>>, [i \in 1..MaxLen(c) |-> 1])
                        [] name = "short" -> Build(c, <<>>, [i \in 1..(c.gap + 1) |-> 4 * c.period])
SideBox(c) == IF Chainy(c) THEN {<<>>} \cup {SideChain(c, nm) : nm \in Sides} ELSE {<<>>}

Init ==
  /\ pc \in PowBox /\ chain = <<>> /\ side \in SideBox(pc) /\ ci = 0
  /\ hist = IF KeepHist THEN <<PCfgEvent(pc)>> ELSE <<>>

(* the next block is mined d quarter seconds after the tip with the prescribed target (gp selects   *)
(* the IDEAL rule or the known deviation; model checking and generation use the IDEAL rule).  The   *)
(* event also carries what CheckMinerMatch answers for every candidate of CandList on the old tip.  *)
MineW(d, cb, gp) ==
  /\ Chainy(pc) /\ Len(chain) < MaxLen(pc)
  /\ LET h == Len(chain) + 1
         bits == ExpectedBits(pc, chain, h, gp)
     IN /\ chain' = Append(chain, [q |-> Q(chain, h - 1) + d, bits |-> bits])
        /\ Log([op |-> "mine", d |-> d, bits |-> bits, res |-> "ok", cb |-> cb, acc |-> IF cb = <<>> THEN <<>> ELSE CandAcc(pc, chain, side, cb, gp)])
  /\ UNCHANGED <<pc, side, ci>>
Mine(d) == MineW(d, CandBits(pc, chain, side), FALSE)
(* the node has stored another chain from the genesis block (the one it followed before it switched to the current one) *)
SetSide(sd) == side' = sd /\ UNCHANGED <<pc, chain, ci>> /\ Log([op |-> "side", blocks |-> sd])

CompactStep ==
  /\ pc.mode = "compact" /\ ci < Len(CompactSeq)
  /\ ci' = ci + 1
  /\ Log([op |-> "compact", c |-> CompactSeq[ci + 1], res |-> CompactRes(CompactSeq[ci + 1])])
  /\ UNCHANGED <<pc, chain, side>>
Compact(k) == /\ ci' = ci + 1 /\ Log([op |-> "compact", c |-> k, res |-> CompactRes(k)]) /\ UNCHANGED <<pc, chain, side>>

Next == (\E d \in Deltas(pc) : Mine(d)) \/ CompactStep
Spec == Init /\ [][Next]_vars
Done == IF Chainy(pc) THEN Len(chain) = MaxLen(pc) ELSE ci = Len(CompactSeq)

SetCfg(c) == pc' = c /\ chain' = <<>> /\ side' = <<>> /\ ci' = 0 /\ Log(PCfgEvent(c))
Reset == pc' = PCfg("compact", 0, 0, <<0, 0>>, <<0, 0>>) /\ chain' = <<>> /\ side' = <<>> /\ ci' = 0 /\ hist' = <<>>

-----------------------------------------------------------------------------
(* The property (IDEAL).  The prescribed target is defined from the genesis block upward, without     *)
(* looking at what the blocks declare: constant between retarget heights, at a retarget height      *)
(* derived from the previous prescribed target and the time the last gap - 1 intervals took.        *)
RECURSIVE Prescribed(_, _, _)
Prescribed(c, ch, h) ==
  IF h <= c.gap THEN c.def
  ELSE IF h % c.gap # 0 THEN Prescribed(c, ch, h - 1)
  ELSE Retarget(c, Prescribed(c, ch, h - 1), Q(ch, h - 1) - Q(ch, h - c.gap))

TargetOf(c, bits) == IF c.mode = "btc" THEN SetCompact(bits).v ELSE 0 - bits[2]     \* legacy: more bits = smaller target

(* every block of the chain carries the prescribed target *)
ChainPrescribed == Chainy(pc) => \A h \in 1..Len(chain) : chain[h].bits = Prescribed(pc, chain, h)
(* the target only changes at retarget heights *)
RetargetOnlyAtGap == Chainy(pc) => \A h \in 2..Len(chain) : (h % pc.gap # 0 \/ h <= pc.gap) => chain[h].bits = chain[h - 1].bits
(* a retarget moves the target by at most a factor 4 (up to the truncation of the compact form; the  *)
(* lower clamp is the integer expected \div 4, so the factor is (expected \div 4) / expected) and     *)
(* never below the floor                                                                            *)
Ulp(bits) == IF bits[1] <= 3 THEN 1 ELSE Pow256(bits[1] - 3)
RetargetBounded == (pc.mode = "btc") => \A h \in 2..Len(chain) :
  LET old == SetCompact(chain[h - 1].bits).v
      new == SetCompact(chain[h].bits).v
      expected == pc.period * (pc.gap - 1)
  IN /\ new <= 4 * old
     /\ new >= SetCompact(pc.floor).v
     /\ ((new + Ulp(chain[h].bits)) * expected > old * (expected \div 4) - expected \/ chain[h].bits = pc.floor)
RetargetBoundedLegacy == (pc.mode = "legacy") => \A h \in 2..Len(chain) :
  /\ chain[h].bits[2] - chain[h - 1].bits[2] \in -2..2
  /\ chain[h].bits[2] <= pc.floor[2]
(* a slow period makes the target easier, a fast one harder, a nominal one keeps it *)
RetargetDirection == Chainy(pc) => \A h \in 2..Len(chain) :
  (h % pc.gap = 0 /\ h > pc.gap) =>
    LET span == (Q(chain, h - 1) - Q(chain, h - pc.gap)) \div 4
        expected == pc.period * (pc.gap - 1)
        old == TargetOf(pc, chain[h - 1].bits)
        new == TargetOf(pc, chain[h].bits)
    IN /\ span >= expected => new >= old
       /\ span <= expected => new <= old
(* acceptance: only with the target declared that the candidate's OWN ancestry prescribes, a hash not above it, a     *)
(* timestamp not before its PARENT's, the id being the header hash and a valid signature of the proposer - whatever *)
(* the node's current tip is                                                                                        *)
ParKinds == {"tip", "comp", "sibN", "sibO", "side", "side1"}
AcceptOnlyEntitled == Chainy(pc) =>
  \* (singleton quantifiers bind a value once; TLC re-evaluates LET definitions at every use)
  \A cb \in {CandBits(pc, chain, side)} : \A acc \in {CandAcc(pc, chain, side, cb, FALSE)} :
  /\ \A i \in 1..Len(CandList) : CandList[i].par = "orphan" => acc[i] = "rej"
  /\ \A par \in {x \in ParKinds : HasPar(chain, side, x)} :
     \A anc \in {Anc(chain, side, par)} : \A pres \in {Prescribed(pc, anc, Len(anc) + 1)} :
     \A i \in {j \in 1..Len(CandList) : CandList[j].par = par} :
       LET k == CandList[i] IN
       acc[i] = "ok" <=> (/\ cb[i] = pres
                          /\ k.hrel <= 0 /\ TsOk(chain, anc, k.tsel) /\ k.idok /\ k.sig = "ok" /\ k.pk = "match")

(* compact form: what is encoded decodes to itself up to the truncation, what is decoded encodes back *)
CompactRoundTrip == (pc.mode = "compact" /\ ci > 0) =>
  LET k == CompactSeq[ci] IN
  IF k.op = "getc" /\ k.e = 0
  THEN LET c == GetCompact(k.m)
           s == SetCompact(c)
       IN /\ c = GetCompactME(k.m, 0)
          /\ ~s.neg /\ c[2] < SignBit
          /\ (c[1] <= 4 => (s.v <= k.m /\ k.m - s.v < Ulp(c)))
  ELSE IF k.op = "setc" /\ k.size <= 4
  THEN LET s == SetCompact(<<k.size, k.word>>)
           me == SetCompactME(k.size, k.word)
       IN /\ me.m * Pow256(me.e) = s.v /\ me.neg = s.neg /\ ~me.ovf
          /\ (~s.neg /\ k.word % SignBit >= 65536 /\ k.size >= 3) => GetCompact(s.v) = <<k.size, k.word>>   \* normalised encodings are fixed points
  ELSE TRUE

TypeOK == pc \in PowBox /\ Len(chain) <= (IF Chainy(pc) THEN MaxLen(pc) ELSE 0)
View == <<pc, chain, side, ci>>
=============================================================================
