---------------------------- MODULE SchedulePow ----------------------------
(***************************************************************************)
(* C16, proof-of-work part: a block is accepted only with a header hash    *)
(* not above the target that the chain's own history prescribes and a      *)
(* timestamp not before its parent's.                                      *)
(*                                                                         *)
(* Written like bcs/consensus/pow: pow.go CheckMinerMatch, IsProofed,      *)
(* refreshDifficulty (retarget every `gap` blocks, time span clamped to    *)
(* /4 .. x4, floor target "maxTarget"), common.go GetCompact / SetCompact. *)
(*                                                                         *)
(* Numbers.  TLC integers are 32 bit, targets are 256 bit.                 *)
(*  - chain model: compact targets <<size, word>> with size 3..4, i.e.     *)
(*    values below 2^31; the harness runs every chain with sizes shifted   *)
(*    by K bytes (K = 0 and a realistic K): for values >= 2^16 the code's  *)
(*    arithmetic commutes with the shift (value * 256^K), see DESIGN C16.  *)
(*  - compact sweep: all sizes; a big number is represented as m * 256^e   *)
(*    with m below 2^31 and without trailing zero bytes.                   *)
(*  - the hash of a candidate is given relative to the target it declares  *)
(*    (hrel = hash - target in {-1, 0, +1}); the specification only needs  *)
(*    the order.                                                           *)
(* Time: chain timestamps in quarter seconds (q); the code divides the     *)
(* nanosecond difference by 1e9, i.e. (q1 - q0) \div 4.                     *)
(***************************************************************************)
EXTENDS Integers, Sequences, FiniteSets, TLC, SequencesExt

CONSTANTS Modes,          \* subset of {"btc", "legacy", "compact"}
          Gaps,           \* adjustHeightGap values
          ExtraLen,       \* chains grow to 2 * gap + ExtraLen blocks
          Seed,           \* selects the pseudo-random part of the compact sweep
          NRand,          \* number of pseudo-random words / numbers in the sweep
          KeepHist,
          KF_PowGrandparentBits   \* known-finding deviation (see ExpectedBits)

VARIABLES pc,       \* configuration
          chain,    \* blocks 1..Len(chain): [q |-> timestamp, bits |-> compact target]; the genesis block has q = 0
          ci,       \* compact sweep: number of cases evaluated
          hist
vars == <<pc, chain, ci, hist>>

-----------------------------------------------------------------------------
(* common.go *)
Pow256(k) == CASE k = 0 -> 1 [] k = 1 -> 256 [] k = 2 -> 65536 [] k = 3 -> 16777216
ByteLen(x) == IF x = 0 THEN 0 ELSE IF x < 256 THEN 1 ELSE IF x < 65536 THEN 2 ELSE IF x < 16777216 THEN 3 ELSE 4
SignBit == 8388608        \* 0x00800000

(* SetCompact on the small domain (size <= 4): value, negative, overflow.  As in the code the flags   *)
(* are computed from the shifted word (nWord and u are the same big.Int).                              *)
SetCompact(c) ==
  LET size == c[1]
      mant == c[2] % SignBit
      u    == IF size <= 3 THEN mant \div Pow256(3 - size) ELSE mant * Pow256(size - 3)
  IN [v |-> u, neg |-> u # 0 /\ c[2] >= SignBit, ovf |-> FALSE]       \* overflow needs size > 32

(* GetCompact for 0 <= n < 2^31 *)
GetCompact(n) ==
  LET nSize == ByteLen(n)
      c0 == IF nSize <= 3 THEN n * Pow256(3 - nSize) ELSE n \div Pow256(nSize - 3)
  IN IF c0 >= SignBit THEN <<nSize + 1, c0 \div 256>> ELSE <<nSize, c0>>

(* The same two functions for all sizes, a number being m * 256^e (Canon strips trailing zero bytes). *)
RECURSIVE Canon(_, _)
Canon(m, e) == IF m = 0 THEN [m |-> 0, e |-> 0] ELSE IF m % 256 = 0 THEN Canon(m \div 256, e + 1) ELSE [m |-> m, e |-> e]
SetCompactME(size, word) ==
  LET mant == word % SignBit
      m0 == IF size <= 3 THEN mant \div Pow256(3 - size) ELSE mant
      e0 == IF size <= 3 THEN 0 ELSE size - 3
      nz == m0 # 0
      gtFF   == nz /\ (e0 >= 1 \/ m0 > 255)                               \* shifted word > 0xff
      gtFFFF == nz /\ (e0 >= 2 \/ (e0 = 1 /\ m0 > 255) \/ m0 > 65535)     \* shifted word > 0xffff
      cn == Canon(m0, e0)
  IN [m |-> cn.m, e |-> cn.e, neg |-> nz /\ word >= SignBit,
      ovf |-> nz /\ (size > 34 \/ (gtFF /\ size > 33) \/ (gtFFFF /\ size > 32))]
GetCompactME(m, e) ==       \* m < 2^31, ByteLen(m) + e <= 255
  LET B == ByteLen(m)
      nSize == IF m = 0 THEN 0 ELSE B + e
      c0 == IF B <= 3 THEN m * Pow256(3 - B) ELSE m \div Pow256(B - 3)
  IN IF c0 >= SignBit THEN <<nSize + 1, c0 \div 256>> ELSE <<nSize, c0>>

RECURSIVE BitLen(_)
BitLen(x) == IF x = 0 THEN 0 ELSE 1 + BitLen(x \div 2)
RECURSIVE Pow2(_)
Pow2(k) == IF k = 0 THEN 1 ELSE 2 * Pow2(k - 1)

-----------------------------------------------------------------------------
(* configurations *)
PCfg(mode, gap, period, def, floor) == [mode |-> mode, gap |-> gap, period |-> period, def |-> def, floor |-> floor]
PowBox == (IF "btc" \in Modes THEN {PCfg("btc", g, 2, <<3, 262144>>, <<3, 65536>>) : g \in Gaps} ELSE {})
          \cup (IF "legacy" \in Modes THEN {PCfg("legacy", g, IF g = 2 THEN 4 ELSE 2, <<0, 10>>, <<0, 12>>) : g \in Gaps} ELSE {})
          \cup (IF "compact" \in Modes THEN {PCfg("compact", 0, 0, <<0, 0>>, <<0, 0>>)} ELSE {})
Chainy(c) == c.mode \in {"btc", "legacy"}
MaxLen(c) == 2 * c.gap + ExtraLen
Deltas(c) == {1, 4 * c.period, 16 * c.period + 4, 25 * c.period}   \* quarter seconds: near-simultaneous, nominal, just beyond the upper clamp (4 x expected + 1 s for gap 2), very slow

Q(ch, h) == IF h = 0 THEN 0 ELSE ch[h].q

(* refreshDifficulty: the retarget computation from the "previous" target and the time span *)
Retarget(c, prevBits, spanQ) ==
  LET expected == c.period * (c.gap - 1)
      actual0  == spanQ \div 4
      a1 == IF actual0 < expected \div 4 THEN expected \div 4 ELSE actual0
      a2 == IF a1 > expected * 4 THEN expected * 4 ELSE a1
  IN IF c.mode = "btc"
     THEN LET d == (SetCompact(prevBits).v * a2) \div expected IN
          IF d < SetCompact(c.floor).v THEN c.floor ELSE GetCompact(d)
     ELSE LET d == (Pow2(prevBits[2]) * expected) \div a2      \* the box keeps a2 > 0 (expected >= 4)
              nb == BitLen(d) - 1
          IN <<0, IF nb > c.floor[2] THEN c.floor[2] ELSE nb>>

(* refreshDifficulty(tipHash, nextHeight): the target of the block at height h on chain ch.         *)
(* IDEAL (gp = FALSE): the previous target is the parent's, the time span ends at the parent.       *)
(* The code reads both one block too far back: from the parent OF the tip ("preBlock"), so the      *)
(* target of h is the one of h - 2 (deviation KF_PowGrandparentBits, gp = TRUE).                     *)
ExpectedBits(c, ch, h, gp) ==
  IF h <= c.gap THEN c.def
  ELSE LET b == IF gp THEN h - 2 ELSE h - 1 IN
       IF h % c.gap # 0 THEN ch[b].bits
       ELSE Retarget(c, ch[b].bits, Q(ch, b) - Q(ch, b - (c.gap - 1)))

(* IsProofed(blockid, bits) for a hash at distance hrel from the target that bits encode *)
Proofed(c, bits, hrel) ==
  IF c.mode = "btc"
  THEN LET sc == SetCompact(bits) IN ~sc.neg /\ ~sc.ovf /\ ~(sc.v < SetCompact(c.floor).v) /\ hrel <= 0
  ELSE hrel <= 0

(* Candidate blocks on the tip.  bsel names how the declared target is chosen (the recorded trace     *)
(* carries the concrete bits), tsel the timestamp relative to the parent's, hrel the hash relative  *)
(* to the declared target, sig / idok / pk the signature, id and public-key consistency.            *)
CandRec(b, t, h, s, i, p) == [bsel |-> b, tsel |-> t, hrel |-> h, sig |-> s, idok |-> i, pk |-> p]
Good == CandRec("exp", "after", 0, "ok", TRUE, "match")
CandList == <<
  Good,
  [Good EXCEPT !.hrel = -1], [Good EXCEPT !.hrel = 1],
  [Good EXCEPT !.tsel = "same"], [Good EXCEPT !.tsel = "before"],
  [Good EXCEPT !.sig = "bad"], [Good EXCEPT !.idok = FALSE], [Good EXCEPT !.pk = "other"],
  [Good EXCEPT !.bsel = "def"], [Good EXCEPT !.bsel = "floor"], [Good EXCEPT !.bsel = "par"],
  [Good EXCEPT !.bsel = "easy"], [Good EXCEPT !.bsel = "easy", !.hrel = -1],
  [Good EXCEPT !.bsel = "hard"], [Good EXCEPT !.bsel = "hard", !.hrel = -1],
  [Good EXCEPT !.tsel = "same", !.hrel = -1], [Good EXCEPT !.tsel = "before", !.hrel = -1],
  [Good EXCEPT !.tsel = "same", !.hrel = 1], [Good EXCEPT !.bsel = "def", !.hrel = 1],
  [Good EXCEPT !.bsel = "par", !.tsel = "same"], [Good EXCEPT !.bsel = "floor", !.hrel = -1] >>

(* the concrete declared bits of a selector (generation; the harness does the same on the real chain) *)
SelBits(c, ch, sel) ==
  LET e == ExpectedBits(c, ch, Len(ch) + 1, FALSE) IN
  CASE sel = "exp"   -> e
    [] sel = "def"   -> c.def
    [] sel = "floor" -> c.floor
    [] sel = "par"   -> IF Len(ch) = 0 THEN c.def ELSE ch[Len(ch)].bits
    [] sel = "easy"  -> IF c.mode = "btc" THEN <<e[1], IF e[2] * 2 >= SignBit THEN SignBit - 1 ELSE e[2] * 2>> ELSE <<0, e[2] - 1>>
    [] sel = "hard"  -> IF c.mode = "btc" THEN <<e[1], e[2] \div 2>> ELSE <<0, e[2] + 1>>

(* PoWConsensus.CheckMinerMatch, in the code's order *)
PowClass(c, ch, k, bits, gp) ==
  IF ~Proofed(c, bits, k.hrel) THEN "rej"                                \* IsProofed(blockid, declared bits)
  ELSE IF ~k.idok THEN "rej"                                             \* MakeBlockId() # blockid
  ELSE IF bits # ExpectedBits(c, ch, Len(ch) + 1, gp) THEN "rej"         \* refreshDifficulty # declared bits
  ELSE IF k.tsel = "before" THEN "rej"                                   \* timestamp < parent's
  ELSE IF k.pk # "match" THEN "rej"                                      \* address # address of the public key
  ELSE IF k.sig # "ok" THEN "rej" ELSE "ok"                              \* VerifyECDSA

CandBits(c, ch) == [i \in 1..Len(CandList) |-> SelBits(c, ch, CandList[i].bsel)]
CandAcc(c, ch, cb, gp) == [i \in 1..Len(CandList) |-> PowClass(c, ch, CandList[i], cb[i], gp)]

-----------------------------------------------------------------------------
(* compact sweep cases *)
Words == {0, 1, 127, 128, 255, 256, 32767, 32768, 65535, 65536, 65537, 8388607, 8388608, 8388609, 8388736, 16777215, 8454144, 4194304, 1193046}
         \cup {(Seed * 7919 + k * 2654435) % 16777216 : k \in 1..NRand}
Sizes == 0..40 \cup {64, 127, 128, 200, 255}
Nums == {0, 1, 127, 128, 255, 256, 32767, 32768, 65535, 65536, 8388607, 8388608, 8388609, 16777215, 16777216, 2147483647, 2139095040, 305419896}
        \cup {(Seed * 104729 + k * 2654435) % 2147483647 : k \in 1..NRand}
Exps == 0..34 \cup {100, 250}
SetCases == {[op |-> "setc", size |-> s, word |-> w] : s \in Sizes, w \in Words}
GetCases == {[op |-> "getc", m |-> n, e |-> e] : n \in Nums, e \in Exps}
CompactSeq == SetToSeq(SetCases) \o SetToSeq({g \in GetCases : ByteLen(g.m) + g.e <= 255})
CompactRes(k) ==
  IF k.op = "setc" THEN SetCompactME(k.size, k.word)
  ELSE [bits |-> GetCompactME(k.m, k.e), ok |-> TRUE]

-----------------------------------------------------------------------------
Log(e) == hist' = IF KeepHist THEN Append(hist, e) ELSE hist
PCfgEvent(c) == [op |-> "cfg", cfg |-> c, cands |-> IF Chainy(c) THEN CandList ELSE <<>>]

Init ==
  /\ pc \in PowBox /\ chain = <<>> /\ ci = 0
  /\ hist = IF KeepHist THEN <<PCfgEvent(pc)>> ELSE <<>>

(* the next block is mined d quarter seconds after the tip with the prescribed target (gp selects   *)
(* the IDEAL rule or the known deviation; model checking and generation use the IDEAL rule).  The   *)
(* event also carries what CheckMinerMatch answers for every candidate of CandList on the old tip.  *)
MineW(d, cb, gp) ==
  /\ Chainy(pc) /\ Len(chain) < MaxLen(pc)
  /\ LET h == Len(chain) + 1
         bits == ExpectedBits(pc, chain, h, gp)
     IN /\ chain' = Append(chain, [q |-> Q(chain, h - 1) + d, bits |-> bits])
        /\ Log([op |-> "mine", d |-> d, bits |-> bits, res |-> "ok", cb |-> cb, acc |-> CandAcc(pc, chain, cb, gp)])
  /\ UNCHANGED <<pc, ci>>
Mine(d) == MineW(d, CandBits(pc, chain), FALSE)

CompactStep ==
  /\ pc.mode = "compact" /\ ci < Len(CompactSeq)
  /\ ci' = ci + 1
  /\ Log([op |-> "compact", c |-> CompactSeq[ci + 1], res |-> CompactRes(CompactSeq[ci + 1])])
  /\ UNCHANGED <<pc, chain>>
Compact(k) == /\ ci' = ci + 1 /\ Log([op |-> "compact", c |-> k, res |-> CompactRes(k)]) /\ UNCHANGED <<pc, chain>>

Next == (\E d \in Deltas(pc) : Mine(d)) \/ CompactStep
Spec == Init /\ [][Next]_vars
Done == IF Chainy(pc) THEN Len(chain) = MaxLen(pc) ELSE ci = Len(CompactSeq)

SetCfg(c) == pc' = c /\ chain' = <<>> /\ ci' = 0 /\ Log(PCfgEvent(c))
Reset == pc' = PCfg("compact", 0, 0, <<0, 0>>, <<0, 0>>) /\ chain' = <<>> /\ ci' = 0 /\ hist' = <<>>

-----------------------------------------------------------------------------
(* The property (IDEAL).  The prescribed target is defined from the genesis block upward, without     *)
(* looking at what the blocks declare: constant between retarget heights, at a retarget height      *)
(* derived from the previous prescribed target and the time the last gap - 1 intervals took.        *)
RECURSIVE Prescribed(_, _, _)
Prescribed(c, ch, h) ==
  IF h <= c.gap THEN c.def
  ELSE IF h % c.gap # 0 THEN Prescribed(c, ch, h - 1)
  ELSE Retarget(c, Prescribed(c, ch, h - 1), Q(ch, h - 1) - Q(ch, h - c.gap))

TargetOf(c, bits) == IF c.mode = "btc" THEN SetCompact(bits).v ELSE 0 - bits[2]     \* legacy: more bits = smaller target

(* every block of the chain carries the prescribed target *)
ChainPrescribed == Chainy(pc) => \A h \in 1..Len(chain) : chain[h].bits = Prescribed(pc, chain, h)
(* the target only changes at retarget heights *)
RetargetOnlyAtGap == Chainy(pc) => \A h \in 2..Len(chain) : (h % pc.gap # 0 \/ h <= pc.gap) => chain[h].bits = chain[h - 1].bits
(* a retarget moves the target by at most a factor 4 (up to the truncation of the compact form; the  *)
(* lower clamp is the integer expected \div 4, so the factor is (expected \div 4) / expected) and     *)
(* never below the floor                                                                            *)
Ulp(bits) == IF bits[1] <= 3 THEN 1 ELSE Pow256(bits[1] - 3)
RetargetBounded == (pc.mode = "btc") => \A h \in 2..Len(chain) :
  LET old == SetCompact(chain[h - 1].bits).v
      new == SetCompact(chain[h].bits).v
      expected == pc.period * (pc.gap - 1)
  IN /\ new <= 4 * old
     /\ new >= SetCompact(pc.floor).v
     /\ ((new + Ulp(chain[h].bits)) * expected > old * (expected \div 4) - expected \/ chain[h].bits = pc.floor)
RetargetBoundedLegacy == (pc.mode = "legacy") => \A h \in 2..Len(chain) :
  /\ chain[h].bits[2] - chain[h - 1].bits[2] \in -2..2
  /\ chain[h].bits[2] <= pc.floor[2]
(* a slow period makes the target easier, a fast one harder, a nominal one keeps it *)
RetargetDirection == Chainy(pc) => \A h \in 2..Len(chain) :
  (h % pc.gap = 0 /\ h > pc.gap) =>
    LET span == (Q(chain, h - 1) - Q(chain, h - pc.gap)) \div 4
        expected == pc.period * (pc.gap - 1)
        old == TargetOf(pc, chain[h - 1].bits)
        new == TargetOf(pc, chain[h].bits)
    IN /\ span >= expected => new >= old
       /\ span <= expected => new <= old
(* acceptance: only with the prescribed target declared, a hash not above it, a timestamp not before *)
(* the parent's, the id being the header hash and a valid signature of the proposer                *)
AcceptOnlyEntitled == Chainy(pc) =>
  LET cb == CandBits(pc, chain)
      acc == CandAcc(pc, chain, cb, FALSE)
  IN \A i \in 1..Len(CandList) :
       LET k == CandList[i] IN
       acc[i] = "ok" <=> (/\ cb[i] = Prescribed(pc, chain, Len(chain) + 1)
                          /\ k.hrel <= 0 /\ k.tsel # "before" /\ k.idok /\ k.sig = "ok" /\ k.pk = "match")

(* compact form: what is encoded decodes to itself up to the truncation, what is decoded encodes back *)
CompactRoundTrip == (pc.mode = "compact" /\ ci > 0) =>
  LET k == CompactSeq[ci] IN
  IF k.op = "getc" /\ k.e = 0
  THEN LET c == GetCompact(k.m)
           s == SetCompact(c)
       IN /\ c = GetCompactME(k.m, 0)
          /\ ~s.neg /\ c[2] < SignBit
          /\ (c[1] <= 4 => (s.v <= k.m /\ k.m - s.v < Ulp(c)))
  ELSE IF k.op = "setc" /\ k.size <= 4
  THEN LET s == SetCompact(<<k.size, k.word>>)
           me == SetCompactME(k.size, k.word)
       IN /\ me.m * Pow256(me.e) = s.v /\ me.neg = s.neg /\ ~me.ovf
          /\ (~s.neg /\ k.word % SignBit >= 65536 /\ k.size >= 3) => GetCompact(s.v) = <<k.size, k.word>>   \* normalised encodings are fixed points
  ELSE TRUE

TypeOK == pc \in PowBox /\ Len(chain) <= (IF Chainy(pc) THEN MaxLen(pc) ELSE 0)
View == <<pc, chain, ci>>
=============================================================================
