---------------------------- MODULE Trace_Contract ----------------------------
(***************************************************************************)
(* Trace validation for C09.  One case contributes the lines               *)
(*   reset, setup(prior state), preexec(program, amount),                  *)
(*   [interleave(key)], [submit(tampering)]                                *)
(* recorded from a real node (harness/cmd/c09).  Every line carries the    *)
(* result class (res) and the projection taken after the step (obs): the   *)
(* three keys (value, version) as read on the executing node (keys), on a  *)
(* second node that has only the stored data - merged with a node reopened *)
(* on a copy of the data where that was done - (cold), by a range read on  *)
(* either (scan, cscan), the key of the write record each stored version   *)
(* refers to (ref), the same keys of another contract's bucket (foreign),  *)
(* the four balances and the abstract form of                              *)
(* the pre-execution response.  A line is explained iff the action of      *)
(* Contract.tla it names, taken from the specification's current state,    *)
(* yields that result and that projection.  The specification is           *)
(* deterministic given the line, except for the read set of the response,  *)
(* which is constrained, not pinned (it must contain every key the         *)
(* program's results depend on, each with its current version; further     *)
(* keys are taken over from the recording), and for the verdict on         *)
(* tamperings of the form only (Contract!FormOnly: either verdict), where  *)
(* the recorded verdict selects among the allowed outcomes.                *)
(* With KF_* constants TRUE the deviating clauses are enabled; dev         *)
(* collects the deviations that changed a response or an outcome.          *)
(***************************************************************************)
EXTENDS Contract, Json
VARIABLES l, div, dev
Trace == ndJsonDeserialize("trace.ndjson")
NoDiv == [at |-> 0]
tvars == <<vars, l, div, dev>>
TInit == Init /\ l = 1 /\ div = NoDiv /\ dev = {} /\ TLCSet(1, 1) /\ TLCSet(2, NoDiv) /\ TLCSet(3, {}) /\ TLCSet(4, 0)

Strip(p) == [i \in 1..Len(p) |-> St(p[i].op, p[i].n, p[i].v, p[i].a, p[i].b, p[i].sub)]
SubsOK(p) == \A i \in 1..Len(p) : IF p[i].sub = 0 THEN p[i].subp = <<>>
                                  ELSE p[i].sub \in 1..Len(SubProgs) /\ p[i].subp = SubProgs[p[i].sub]
ReadKeys(ev) == {ev.obs.resp.reads[i].n : i \in 1..Len(ev.obs.resp.reads)} \cap Keys
Act(ev) ==
  CASE ev.op = "reset"      -> Reset
    [] ev.op = "setup"      -> Setup([k \in Keys |-> ev.kv[k]])
    [] ev.op = "preexec"    -> DoPreExec(Strip(ev.prog), ev.amt, ReadKeys(ev))
    [] ev.op = "interleave" -> Interpose(ev.n)
    [] ev.op = "submit"     -> DoSubmit(T(ev.tk, ev.n, ev.v, ev.j, ev.d, Strip(ev.prog)), ev.res)
LastEv == hist'[Len(hist')]
Good(ev) == /\ LastEv.res = ev.res /\ Obs' = ev.obs
            /\ ev.op \in {"preexec", "submit"} => SubsOK(ev.prog)
TStep ==
  /\ l <= Len(Trace) /\ div = NoDiv
  /\ LET ev == Trace[l] IN
     /\ Act(ev)
     /\ dev' = IF ev.op = "reset" THEN dev ELSE dev \cup LastEv.dv
     \* informative only: refusals issued by the other of the two calls (VerifyTx / DoTx) than the specification's structure says
     /\ (ev.op = "submit" /\ ev.res = "reject" /\ LastEv.res = "reject" /\ ev.stage # LastEv.stage) => TLCSet(4, TLCGet(4) + 1)
     /\ div' = IF ev.op = "reset" \/ Good(ev) THEN NoDiv
               ELSE [at |-> l, tr |-> ev.tr, op |-> ev.op, expres |-> LastEv.res, actres |-> ev.res, exp |-> Obs', act |-> ev.obs]
  /\ l' = l + 1
TSpec == TInit /\ [][TStep]_tvars
(* bookkeeping in TLC registers (-workers 1): 1 = highest line index reached without divergence, 2 = divergence with the *)
(* longest explained prefix, 3 = deviations used, 4 = number of refusals issued by the other call (informative)            *)
Book == /\ (div = NoDiv /\ l > TLCGet(1)) => TLCSet(1, l)
        /\ (div # NoDiv /\ (TLCGet(2) = NoDiv \/ TLCGet(2).at < div.at)) => TLCSet(2, div)
        /\ TLCSet(3, TLCGet(3) \cup dev)
Post == JsonSerialize("result.json", <<[hw |-> TLCGet(1), len |-> Len(Trace), div |-> TLCGet(2), dev |-> TLCGet(3), stagediff |-> TLCGet(4)]>>)
=============================================================================
