SPECIFICATION Spec
CONSTANTS
  KF_IntermediateAKCounts = FALSE
  MaxSigners = 4
  NestedChoices = 3
  WithNegative = TRUE
  MaxOps = 100
INVARIANTS TypeOK EvalEqSat Monotone OnceOnly DeviationExact
VIEW View
CHECK_DEADLOCK FALSE
