------------------------------- MODULE QCTree -------------------------------
(***************************************************************************)
(* The pending-proposal tree of the chained-BFT driver                     *)
(* (kernel/consensus/base/driver/chained-bft/context.go), written like the *)
(* code: one action per mutator of QCPendingTree                           *)
(*   Insert   updateQcStatus  = duplicate check, insert (main tree +       *)
(*            adoptOrphans / insertOrphan), updateHighQC(parent)           *)
(*   Certify  updateHighQC                                                 *)
(*   Enforce  enforceUpdateHighQC                                          *)
(*   Commit   updateCommit                                                 *)
(* Each mutator is a function from the structure s = [main, orph, oatt,    *)
(* omap, root, high, generic, locked, commit, w] to the new structure, so  *)
(* that the trace specification can tell which named deviation a step      *)
(* exercised.                                                              *)
(*                                                                         *)
(* Proposals are 1..NP, the genesis node is 0.  par (chosen at Init: every *)
(* tree shape) is the parent link every proposal carries; a proposal's     *)
(* view is its height (parent's view + 1), as the consensus plugins        *)
(* produce them (BlockToProposalNode).  Arrival order is free: any         *)
(* proposal may be submitted at any time, before its parent, repeatedly.   *)
(*                                                                         *)
(* The main tree is the set of nodes reachable from Root (a node hangs     *)
(* below the node whose id is its parent id, nowhere else); the orphan     *)
(* forest is the list of orphan roots (OrphanList, in list order) plus the *)
(* set of nodes attached below them; omap is OrphanMap (never shrinks).    *)
(***************************************************************************)
EXTENDS Integers, Sequences, FiniteSets, TLC, SequencesExt

CONSTANTS NP,        \* number of proposals
          MaxOps,    \* bound on the length of a behaviour
          Pace,      \* TRUE: the pacemaker (DefaultPaceMaker.AdvanceView) is part of the model
          \* ACTUAL = IDEAL + named deviations (all FALSE: IDEAL)
          KF_OrphanFirstMatchOnly,  \* insertOrphan returns at the first orphan tree that matches (as a child
                                    \* of the new node, or as the holder of its parent)
          KF_StaleMarkers           \* updateHighQC leaves generic / locked / commit at their old nodes when the
                                    \* new HighQC's ancestor chain is cut by the root

VARIABLES par,       \* 1..NP -> 0..NP: the parent link of every proposal (fixed at Init)
          main,      \* ids reachable from Root
          orph,      \* OrphanList: sequence of orphan-root ids
          oatt,      \* ids attached below an orphan root (each below the node that is its parent)
          omap,      \* OrphanMap
          root, high, generic, locked, commit,    \* the five markers (Nil = unset)
          wr,        \* ghost: markers that have been assigned a node by Certify / Insert / Enforce
          accepted,  \* ghost: proposals whose submission returned without error
          enf,       \* ghost: the last step was an explicit rollback
          pview,     \* the pacemaker's current view
          hist
vars == <<par, main, orph, oatt, omap, root, high, generic, locked, commit, wr, accepted, enf, pview, hist>>

Nil == -1
Props == DOMAIN par              \* 1..NP (in trace validation: as many as the recorded tree has)
Ids == {0} \cup Props
Par(p) == IF p <= 0 THEN Nil ELSE par[p]
RECURSIVE View(_)
View(p) == IF p <= 0 THEN 0 ELSE View(par[p]) + 1
RECURSIVE Anc(_)                 \* ancestors-or-self
Anc(p) == IF p = Nil THEN {} ELSE {p} \cup Anc(Par(p))

(* nodes of the orphan tree rooted at r: r and everything attached below it *)
RECURSIVE Below(_, _)
Below(S, att) == LET nxt == S \cup {x \in att : Par(x) \in S} IN IF nxt = S THEN S ELSE Below(nxt, att)
OTree(r, att) == Below({r}, att)
SeqMinus(q, X) == SelectSeq(q, LAMBDA x : x \notin X)

St == [main |-> main, orph |-> orph, oatt |-> oatt, omap |-> omap, root |-> root,
       high |-> high, generic |-> generic, locked |-> locked, commit |-> commit, w |-> wr]

-----------------------------------------------------------------------------
(* DFSQueryNode(id) # nil  <=>  id \in s.main *)

(* updateHighQC(id).  The chain `parent := DFSQueryNode(...); if nil return` assigns the ancestors that
   are still in the tree.  IDEAL first clears generic / locked / commit (as enforceUpdateHighQC does), so
   that a marker that cannot be re-derived is unset; the code (stale) leaves the old value in place. *)
Chain(s, id) ==
  LET s1 == [s EXCEPT !.high = id, !.w = @ \cup {"high"}] IN
  IF Par(id) \notin s.main THEN s1 ELSE
  LET s2 == [s1 EXCEPT !.generic = Par(id), !.w = @ \cup {"generic"}] IN
  IF Par(Par(id)) \notin s.main THEN s2 ELSE
  LET s3 == [s2 EXCEPT !.locked = Par(Par(id)), !.w = @ \cup {"locked"}] IN
  IF Par(Par(Par(id))) \notin s.main THEN s3 ELSE
  [s3 EXCEPT !.commit = Par(Par(Par(id))), !.w = @ \cup {"commit"}]
Cleared(s) == [s EXCEPT !.generic = Nil, !.locked = Nil, !.commit = Nil]
CertifyF(s, id, stale) ==
  IF id \notin s.main THEN s
  ELSE IF View(id) < View(s.high) THEN s
  ELSE Chain(IF stale THEN s ELSE Cleared(s), id)

(* enforceUpdateHighQC(id): explicit rollback; NoValidQC if the node is not in the tree *)
EnforceOk(s, id) == id \in s.main
EnforceF(s, id) == IF id \in s.main THEN Chain(Cleared(s), id) ELSE s

(* updateCommit(id): the root moves to id's great-grandparent if that node's parent is still in the tree;
   everything that does not descend from the new root is cut off *)
CommitF(s, id) ==
  LET a1 == Par(id)  a2 == Par(a1)  a3 == Par(a2)  a4 == Par(a3) IN
  IF id \in s.main /\ a1 \in s.main /\ a2 \in s.main /\ a3 \in s.main /\ a4 \in s.main
  THEN [s EXCEPT !.root = a3, !.main = {x \in s.main : a3 \in Anc(x)}]
  ELSE s

(* insertOrphan(p): the loop over OrphanList.  roots = the list when the loop starts; lst / att the list
   and the attachment set as modified so far; hung = the new node has been attached below its parent.
   An orphan root not above the root's view is "失效" and removed when the loop reaches it.
   IDEAL scans the whole list: every orphan root that is a child of p is collected below p, and p is
   attached below its parent if some orphan tree holds it (otherwise p becomes a root).  The code
   (first) returns at the first tree that matches either way. *)
RECURSIVE OLoop(_, _, _, _, _, _, _, _)
OLoop(p, rootView, first, roots, k, lst, att, hung) ==
  IF k > Len(roots) THEN [orph |-> IF hung THEN lst ELSE Append(lst, p), oatt |-> att]
  ELSE LET r == roots[k] IN
       IF View(r) <= rootView THEN OLoop(p, rootView, first, roots, k + 1, SeqMinus(lst, {r}), att \ OTree(r, att), hung)
       ELSE IF Par(r) = p THEN
            IF first THEN [orph |-> Append(SeqMinus(lst, {r}), p), oatt |-> att \cup {r}]            \* return
            ELSE OLoop(p, rootView, first, roots, k + 1, SeqMinus(lst, {r}), att \cup {r}, hung)
       ELSE IF ~hung /\ Par(p) \in OTree(r, att) THEN
            IF first THEN [orph |-> lst, oatt |-> att \cup {p}]                                      \* return
            ELSE OLoop(p, rootView, first, roots, k + 1, lst, att \cup {p}, TRUE)
       ELSE OLoop(p, rootView, first, roots, k + 1, lst, att, hung)

(* updateQcStatus(node p) *)
InsertF(s, p, first, stale) ==
  IF p \in s.main THEN s                                  \* "has been inserted"
  ELSE IF Par(p) \in s.main THEN
       \* parent.Sons += node; adoptOrphans(node): every orphan root whose parent is p moves below p;
       \* then updateHighQC(parent)
       LET kids == {r \in Range(s.orph) : Par(r) = p}
           moved == UNION {OTree(r, s.oatt) : r \in kids}
           s1 == [s EXCEPT !.main = @ \cup {p} \cup moved, !.orph = SeqMinus(@, kids), !.oatt = @ \ moved]
       IN CertifyF(s1, Par(p), stale)
  ELSE \* insertOrphan(node); updateHighQC(parent) finds nothing
       IF p \in s.omap THEN s
       ELSE LET r == OLoop(p, View(s.root), first, s.orph, 1, s.orph, s.oatt, FALSE) IN
            [s EXCEPT !.orph = r.orph, !.oatt = r.oatt, !.omap = @ \cup {p}]

-----------------------------------------------------------------------------
Apply(s) == /\ main' = s.main /\ orph' = s.orph /\ oatt' = s.oatt /\ omap' = s.omap /\ root' = s.root
            /\ high' = s.high /\ generic' = s.generic /\ locked' = s.locked /\ commit' = s.commit /\ wr' = s.w
Log(e) == hist' = Append(hist, e)

Insert(p) ==
  /\ p \in Props
  /\ Apply(InsertF(St, p, KF_OrphanFirstMatchOnly, KF_StaleMarkers))
  /\ accepted' = accepted \cup {p} /\ enf' = FALSE /\ UNCHANGED <<par, pview>>
  /\ Log([op |-> "insert", p |-> p, res |-> "ok"])
(* a quorum certificate for p has been seen (votes collected / justify of a confirmed block) *)
Certify(p) ==
  /\ p \in Ids
  /\ Apply(CertifyF(St, p, KF_StaleMarkers))
  /\ enf' = FALSE /\ UNCHANGED <<par, accepted, pview>>
  /\ Log([op |-> "certify", p |-> p, res |-> "ok"])
Enforce(p) ==
  /\ p \in Ids
  /\ Apply(EnforceF(St, p))
  /\ enf' = EnforceOk(St, p) /\ UNCHANGED <<par, accepted, pview>>
  /\ Log([op |-> "enforce", p |-> p, res |-> IF EnforceOk(St, p) THEN "ok" ELSE "err"])
Commit(p) ==
  /\ p \in Ids
  /\ Apply(CommitF(St, p))
  /\ enf' = FALSE /\ UNCHANGED <<par, accepted, pview>>
  /\ Log([op |-> "commit", p |-> p, res |-> "ok"])
(* DefaultPaceMaker.AdvanceView(qc of p): the view becomes max(view, view(p) + 1) *)
Advance(p) ==
  /\ Pace /\ p \in Ids
  /\ pview' = (IF View(p) + 1 > pview THEN View(p) + 1 ELSE pview)
  /\ UNCHANGED <<par, main, orph, oatt, omap, root, high, generic, locked, commit, wr, accepted, enf>>
  /\ Log([op |-> "advance", p |-> p, res |-> "ok"])

Trees == {f \in [1..NP -> 0..NP] : \A i \in 1..NP : f[i] < i}
InitWith(f) ==
  /\ par = f
  /\ main = {0} /\ orph = <<>> /\ oatt = {} /\ omap = {}
  /\ root = 0 /\ high = 0 /\ generic = Nil /\ locked = Nil /\ commit = 0     \* common.InitQCTree
  /\ wr = {} /\ accepted = {} /\ enf = FALSE /\ pview = 0
  /\ hist = <<[op |-> "tree", par |-> f, res |-> "ok"]>>
Init == \E f \in Trees : InitWith(f)
(* trace validation: a new tree with the recorded parent links *)
ResetTo(f) ==
  /\ par' = f
  /\ main' = {0} /\ orph' = <<>> /\ oatt' = {} /\ omap' = {}
  /\ root' = 0 /\ high' = 0 /\ generic' = Nil /\ locked' = Nil /\ commit' = 0
  /\ wr' = {} /\ accepted' = {} /\ enf' = FALSE /\ pview' = 0
  /\ hist' = <<[op |-> "tree", par |-> f, res |-> "ok"]>>

Next ==
  /\ Len(hist) < MaxOps
  /\ \/ \E p \in Props : Insert(p)
     \/ \E p \in Ids : Certify(p)
     \/ \E p \in Ids : Enforce(p)
     \/ \E p \in Ids : Commit(p)
     \/ \E p \in Ids : Advance(p)
Spec == Init /\ [][Next]_vars

-----------------------------------------------------------------------------
(* Observable projection: parent links reachable from Root, the live orphan forest (orphan trees whose
   root is above the root's view: stale trees are dropped lazily by the code and never consulted), how
   often each proposal is stored, the five markers. *)
LiveRootsOf(s) == {r \in Range(s.orph) : View(r) > View(s.root)}
LiveOrphOf(s) == UNION {OTree(r, s.oatt) : r \in LiveRootsOf(s)}
ObsOf(s, pv) ==
  [ root |-> s.root, high |-> s.high, generic |-> s.generic, locked |-> s.locked, commit |-> s.commit,
    tree |-> [i \in Props |-> IF i \in s.main /\ i # s.root THEN Par(i) ELSE Nil],               \* holder of i in the main tree
    oroots |-> SetToSortSeq(LiveRootsOf(s), <),
    otree |-> [i \in Props |-> IF i \in LiveOrphOf(s) \ LiveRootsOf(s) THEN Par(i) ELSE Nil],     \* holder of i in the orphan forest
    cnt |-> [i \in Props |-> (IF i \in s.main THEN 1 ELSE 0) + (IF i \in LiveOrphOf(s) THEN 1 ELSE 0)],
    pview |-> pv ]
Obs == ObsOf(St, pview)
LiveRoots == LiveRootsOf(St)
LiveOrph == LiveOrphOf(St)

-----------------------------------------------------------------------------
(* Property C15 (asserted on IDEAL) *)
(* the structure reachable from Root is a tree rooted at Root that follows the parent links *)
TreeOK == /\ root \in main
          /\ \A x \in main \ {root} : Par(x) \in main
          /\ \A x \in main : root \in Anc(x)
(* every accepted proposal that descends from the root is stored exactly once, in the tree or as an orphan;
   nothing is stored twice *)
StoredOnce == /\ \A p \in accepted : (root \in Anc(p) /\ p # root) =>
                    (IF p \in main THEN 1 ELSE 0) + (IF p \in LiveOrph THEN 1 ELSE 0) = 1
              /\ main \cap LiveOrph = {}
              /\ \A x \in oatt : x \notin Range(orph)
(* an orphan is adopted when its parent arrives: no stored orphan has its parent in the main tree, and no
   orphan root has its parent stored in the orphan forest *)
OrphansOK == /\ \A x \in LiveOrph : Par(x) \notin main
             /\ \A r \in LiveRoots : Par(r) \notin LiveOrph
(* generic / locked / commit, once set by a certification or rollback (the initialisation values are not
   the property's subject), are the 1st / 2nd / 3rd ancestor of the highest-certified node *)
MarkersOK == /\ ("generic" \in wr /\ generic # Nil) => generic = Par(high)
             /\ ("locked" \in wr /\ locked # Nil) => locked = Par(Par(high))
             /\ ("commit" \in wr /\ commit # Nil) => commit = Par(Par(Par(high)))
TypeOK == /\ main \subseteq Ids /\ oatt \subseteq Ids /\ omap \subseteq Ids
          /\ root \in Ids /\ high \in Ids /\ {generic, locked, commit} \subseteq Ids \cup {Nil}
(* action properties *)
HighMonotone == [][enf' \/ View(high') >= View(high)]_vars           \* never decreases except by explicit rollback
RootMoves == [][root' # root => (root \in Anc(root') /\ root' \in main)]_vars    \* only to a descendant of the previous root
PaceMonotone == [][pview' >= pview]_vars

ViewVars == <<par, main, orph, oatt, omap, root, high, generic, locked, commit, wr, accepted, enf, pview>>
=============================================================================
