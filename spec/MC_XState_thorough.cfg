SPECIFICATION Spec
CONSTANTS
  MaxBlocks = 5
  MaxTxPerBlock = 1
  MaxOps = 100000
  Window = 0
  BlockBudget = 1000
  ActiveTxs = {"t1", "t2", "t3", "p1", "p2", "p3"}
  KF_FrozenLedgerHeight = FALSE
  KF_PlayKeepsStaleReader = FALSE
  KF_PoolOrderAntiDep = FALSE
  KF_PoolMasksBlockOrder = FALSE
INVARIANTS TypeOK PureFn Conservation NoDoubleSpend PoolValid SnapshotOK
VIEW View
CHECK_DEADLOCK FALSE
