\* the lock table at call level: three clients, three keys, every request shape
SPECIFICATION Spec
CONSTANTS
  Clients = {1, 2, 3}
  MaxOps = 0
VIEW View
INVARIANT Exclusive
INVARIANT IdleHoldNothing
CHECK_DEADLOCK TRUE
