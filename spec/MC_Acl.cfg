SPECIFICATION Spec
CONSTANTS
  KF_IntermediateAKCounts = FALSE
  MaxSigners = 3
  NestedChoices = 2
  WithNegative = TRUE
  MaxOps = 100
INVARIANTS TypeOK EvalEqSat Monotone OnceOnly DeviationExact
VIEW View
CHECK_DEADLOCK FALSE
