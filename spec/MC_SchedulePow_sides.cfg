SPECIFICATION Spec
CONSTANTS
  Modes = {"btc", "legacy", "compact"}
  Gaps = {2, 3}
  ExtraLen = 1
  Seed = 1
  NRand = 40
  KeepHist = FALSE
  KF_PowGrandparentBits = FALSE
  Sides = {"slow", "fast", "short"}
INVARIANTS TypeOK ChainPrescribed RetargetOnlyAtGap RetargetBounded RetargetBoundedLegacy RetargetDirection AcceptOnlyEntitled CompactRoundTrip
VIEW View
CHECK_DEADLOCK FALSE
