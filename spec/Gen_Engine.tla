----------------------------- MODULE Gen_Engine -----------------------------
EXTENDS Engine, Json, Randomization
ASSUME JsonSerialize("catalog.json", <<[tx |-> TX, genesis |-> GenesisOuts, award |-> AwardSched, awards |-> [h \in 1..16 |-> AwardAt(h)],
                                        keys |-> SetToSeq(Keys), addrs |-> Addrs]>>)
Truncated == \E i \in DOMAIN hist : hist[i].op = "minetrunc"      \* a truncating round ends the behaviour
Dump == (Len(hist) < MaxOps /\ ~Truncated) \/ eres # "" \/ (JsonSerialize("out/b_" \o ToString(TLCGet("stats").traces) \o ".json", hist) /\ FALSE)
Pick(k, S) == RandomSubset(IF Cardinality(S) < k THEN Cardinality(S) ELSE k, S)
V1(s, lh, skip) == {t \in Txs \ skip : Valid(s, t, lh)}
FirstSeqs(p) == LET r == Replay(p) on == {t \in Txs : OnChain(t, p)} IN
                IF ~r.ok THEN {<<>>} ELSE {<<>>} \cup {<<t>> : t \in V1(r.s, Height(p) + 1, on)}
(* generator precondition (C04): a transaction occurs at most once on a root-to-leaf path *)
Fresh(p, used) == {t \in Txs : ~OnChain(t, p) /\ t \notin used}
LaterOf(p, used) == {<<>>} \cup {<<t>> : t \in Pick(1, Fresh(p, used))}
Chains(p) == {<<a>> : a \in FirstSeqs(p)}
                \cup UNION {{<<a, b>> : b \in LaterOf(p, Range(a))} : a \in FirstSeqs(p)}
                \cup UNION {UNION {{<<a, b, c>> : c \in LaterOf(p, Range(a) \cup Range(b))} : b \in LaterOf(p, Range(a))} : a \in Pick(2, FirstSeqs(p))}
GNext ==
  \/ /\ Len(hist) < MaxOps /\ n < MaxBlocks - 3 /\ ~Truncated
     /\ \/ \E p \in 1..n : \E ss \in Pick(2, Chains(p)) : PushBegin(p, ss, "ok")
        \/ \E p \in Pick(1, 1..n) : \E ss \in Pick(1, Chains(p)) : \E kd \in Pick(1, {"badaward", "badsig1", "badsig2"}) : PushBegin(p, ss, kd)
        \/ \E b \in Pick(1, 2..n) : RePush(b)
        \/ \E t \in {t \in Txs : t \notin pool /\ ~OnChain(t, ptr) /\ ~Confirmed(t) /\ Valid(St, t, LHeight)} : ESubmit(t, "*")
        \/ \E t \in Pick(1, {t \in Txs : ~OnChain(t, ptr) /\ ~Confirmed(t)}) : ESubmit(t, "*")
        \/ (ptr = ltip /\ pool # {} /\ EMine)
        \/ \E x \in Pick(1, {0}) : (ptr = ltip /\ EMine)
        \/ Tick
        \/ \E x \in Pick(1, {0}) : ERestart
  \/ (2 * Len(hist) >= MaxOps /\ Len(hist) < MaxOps /\ ~Truncated /\ LHeight >= 2 /\ \E d \in Pick(1, Anc(ltip) \ {ltip}) : ETruncBegin(d, <<"*">>, {"*"}))
  \/ Micro \/ PushEnd
GSpec == EInit /\ [][GNext]_evars
=============================================================================
