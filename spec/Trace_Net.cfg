SPECIFICATION TSpec
CONSTANTS
  Nodes = {1, 2, 3}
  MaxBlocks = 1000
  MaxTxPerBlock = 1
  MaxOps = 100000
  Window = 0
  BlockBudget = 1000
  ActiveTxs = {"t1", "t2", "t3", "t4", "t5", "t6", "t7", "t8", "p1", "p2", "p3", "p4", "p5", "p6", "p7", "p8", "p9", "p10", "p12", "w1", "w2", "w3", "w4", "w5", "w6", "c1", "p11", "x1", "x2", "b1", "b2", "b3", "s4"}
  KF_FrozenLedgerHeight = FALSE
  KF_PlayKeepsStaleReader = FALSE
  KF_PoolOrderAntiDep = FALSE
  KF_PoolMasksBlockOrder = FALSE
CONSTRAINT Book
POSTCONDITION Post
CHECK_DEADLOCK FALSE
