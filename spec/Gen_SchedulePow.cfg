SPECIFICATION GenSpec
CONSTANTS
  Modes = {"btc", "legacy", "compact"}
  Gaps = {2, 3}
  ExtraLen = 1
  Seed = 1
  NRand = 40
  KeepHist = TRUE
  KF_PowGrandparentBits = FALSE
  Sides = {}
CONSTRAINT Dump
VIEW View
CHECK_DEADLOCK FALSE
