---------------------------- MODULE Trace_XState ----------------------------
(* Trace validation of the real state machine against XState.                                  *)
EXTENDS XState, Json
VARIABLES l, div, devAll
Trace == ndJsonDeserialize("trace.ndjson")
NoDiv == [at |-> 0]
tvars == <<vars, l, div, devAll>>

TInit == Init /\ l = 1 /\ div = NoDiv /\ devAll = {} /\ TLCSet(1, 1) /\ TLCSet(2, NoDiv) /\ TLCSet(3, {})

Has(ev, f) == f \in DOMAIN ev
Act(ev) ==
  CASE ev.op = "reset"   -> Reset
    [] ev.op = "submit"  -> Submit(ev.t)
    [] ev.op = "mkblock" -> MkAnyBlock(ev.p, ev.txs)
    [] ev.op = "play"    -> Play(ev.b, ev.res)
    [] ev.op = "mine"    -> IF Range(ev.txs) = pool /\ NoDupSeq(ev.txs) THEN Mine(ev.txs) ELSE Mine(TopoOrder(pool))
    [] ev.op = "walk"    -> Walk(ev.d, ev.prune, Range(ev.obs.pool))
    [] ev.op = "restart" -> Restart

(* JSON arrays standing for sets are compared as sets *)
Norm(o) == [o EXCEPT !.utxo = Range(@), !.pool = Range(@)]

(* After a known deviation has changed an outcome the node is, by the finding itself, in a state the
   IDEAL design does not have; the rest of that behaviour is not judged (until the next reset). *)
Tainted == dev # {}
TStep ==
  /\ l <= Len(Trace) /\ div = NoDiv
  /\ LET ev == Trace[l] IN
     /\ IF Tainted /\ ev.op # "reset" THEN UNCHANGED vars ELSE Act(ev)
     /\ devAll' = devAll \cup dev'
     /\ div' = IF ev.op = "reset" \/ Tainted \/ dev' # {} THEN NoDiv
               ELSE LET r == hist'[Len(hist')].res
                        okLive == Norm(ev.obs) = Obs'
                        okReopen == Has(ev, "robs") => Norm(ev.robs) = Obs' IN
                    IF r = ev.res /\ okLive /\ okReopen THEN NoDiv
                    ELSE [at |-> l, tr |-> ev.tr, op |-> ev.op, expres |-> r, actres |-> ev.res, exp |-> Obs',
                          act |-> IF okLive /\ Has(ev, "robs") THEN ev.robs ELSE ev.obs,
                          which |-> IF r # ev.res THEN "result" ELSE IF ~okLive THEN "live" ELSE "reopened"]
  /\ l' = l + 1
TSpec == TInit /\ [][TStep]_tvars

Book ==
  /\ (div = NoDiv /\ l > TLCGet(1)) => (TLCSet(1, l) /\ TLCSet(3, devAll))
  /\ (div # NoDiv /\ (TLCGet(2) = NoDiv \/ TLCGet(2).at < div.at)) => TLCSet(2, div)
Post == JsonSerialize("result.json", <<[hw |-> TLCGet(1), len |-> Len(Trace), div |-> TLCGet(2), dev |-> TLCGet(3)]>>)
=============================================================================
