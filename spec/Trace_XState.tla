---------------------------- MODULE Trace_XState ----------------------------
(* Trace validation of the real state machine against XState.                                  *)
EXTENDS XState, Json
VARIABLES l, div, devAll, taint
Trace == ndJsonDeserialize("trace.ndjson")
NoDiv == [at |-> 0]
tvars == <<vars, l, div, devAll, taint>>

TInit == Init /\ l = 1 /\ div = NoDiv /\ devAll = {} /\ taint = FALSE /\ TLCSet(1, 1) /\ TLCSet(2, NoDiv) /\ TLCSet(3, {})

Has(ev, f) == f \in DOMAIN ev
(* JSON arrays standing for sets are compared as sets *)
(* the read-before-overwrite half of the pool's order is part of C13's statement only: that check substitutes
   JudgePoolAntiDep <- Yes; for every other property a wrong order counts once a mined block carries it *)
Yes == TRUE
JudgePoolAntiDep == FALSE
(* poolseq (the order in which the pool yields its transactions) is not part of the compared record: it is judged by
   SeqOK - every transaction comes after the pending transactions whose outputs or key versions it consumes, and
   (unless the known deviation is switched on) a pure reader of a key version before the pending writer superseding it *)
Norm(o) == [f \in DOMAIN o \ {"poolseq"} |-> IF f \in {"utxo", "pool", "poold"} THEN Range(o[f]) ELSE o[f]]
SeqOK(o) == "poolseq" \notin DOMAIN o \/ \A i, j \in DOMAIN o.poolseq :
               (i < j /\ o.poolseq[i] \in AllTxs /\ o.poolseq[j] \in AllTxs) => ~DependsOn(o.poolseq[i], o.poolseq[j])
                  /\ (~JudgePoolAntiDep \/ KF_PoolOrderAntiDep \/ ~AntiDep(o.poolseq[j], o.poolseq[i]))
FaultAct(ev) ==
  CASE ev.op = "walk"    -> IF ev.fault < WalkBlockWrites(ev.d, ev.prune) THEN WalkFault(ev.d, ev.prune, ev.fault)
                            ELSE Walk(ev.d, ev.prune, Range(ev.obs.pool), <<>>)   \* a re-admission write failed: that tx is dropped
    [] ev.op = "submit"  -> OpFault("submit", "other")
    [] OTHER             -> OpFault(ev.op, "fail")
(* An operation that names a block neither the real node nor the specification has (it arises when the real miner packed
   other transactions than the generator assumed, so that a later generated block was refused by both and the block
   numbers of the generated behaviour run ahead): nothing happens. *)
NoBlk(ev) == \/ (Has(ev, "p") /\ ev.p \notin 1..n) \/ (Has(ev, "b") /\ ev.b \notin 1..n) \/ (Has(ev, "d") /\ ev.d \notin 1..n)
Act(ev) ==
  CASE ev.op # "reset" /\ NoBlk(ev) -> (UNCHANGED <<blk, n, ltip, ptr, utxo, zu, zd, total, irr, pool, dev, applied, pruned>> /\ Log([op |-> ev.op, res |-> "noblock"]))
    [] Has(ev, "fault")  -> FaultAct(ev)
    [] ev.op = "reset"   -> Reset
    [] ev.op = "submit"  -> SubmitAny(ev.t, ev.res)
    [] ev.op = "mkblock" -> MkAnyBlockX(ev.p, ev.txs, Has(ev, "mined"))
    [] ev.op = "play"    -> Play(ev.b, ev.res)
    [] ev.op = "pfm"     -> PlayForMiner(ev.b)
    [] ev.op = "walk"    -> Walk(ev.d, ev.prune, Range(ev.obs.pool), IF Has(ev, "readmit") THEN ev.readmit ELSE <<>>)
    [] ev.op = "restart" -> Restart

(* C06 / C05: the node reopened on the image after the j-th storage write of the operation (crash point), or the
   live node after the (j+1)-th write was made to fail, must answer like the specification's persisted state
   after j writes; then "sync to the ledger tip" + pool roll-back must reach the replay of the ledger tip.
   Only walks have more than one write; for every other operation the cut after its single write is the
   post-state and the cut after zero writes the pre-state. *)
(* Walk cuts are judged against the pre-state (unprimed); the single cut of any other operation is its
   post-state and is judged one step later, when that state is the current one (large expressions are not
   evaluated under a prime: TLC does not cache lazily evaluated values there). *)
WalkCutsOK(ev) ==
  NoBlk(ev) \/ ~(Has(ev, "cuts") /\ ev.op = "walk") \/
  \E w \in {WalkChoice(ev.d, ev.prune, Range(ev.obs.pool), IF Has(ev, "readmit") THEN ev.readmit ELSE <<>>)} :
    \A i \in DOMAIN ev.cuts :
      \E c \in {ev.cuts[i]} :
      \E rec \in {IF c.j <= Len(w.steps) THEN w.steps[c.j] ELSE w.steps[Len(w.steps)]} :
         /\ Norm(c.obs) = ObsOf(rec, ltip)
         /\ Has(c, "sync") => \E e \in {SyncObs(rec)} : c.syncres = e.res /\ Norm(c.sync) = e.obs
PrevCutsOK ==
  l = 1 \/ \E pe \in {Trace[l - 1]} :
    (Has(pe, "cuts") /\ pe.op # "walk" /\ ~taint) =>
       \A i \in DOMAIN pe.cuts :
          \E c \in {pe.cuts[i]} :
             /\ Norm(c.obs) = Obs
             /\ Has(c, "sync") => \E e \in {SyncObs(CurRec)} : c.syncres = e.res /\ Norm(c.sync) = e.obs

(* C13: a mined block's transaction order is the pool's own; it must respect dependencies and anti-dependencies,
   and a replica that never saw the transactions must reach the producer's state (judged at the pfm event, in its
   pre-state: the block is already part of blk) *)
MinedOrderOK(ev) == ~(ev.op = "mkblock" /\ Has(ev, "mined")) \/ (KF_PoolOrderAntiDep /\ ~PoolOrderOK(ev.txs)) \/ PackedOK(ev.txs)
ReplicaOK(ev) ==
  NoBlk(ev) \/ ~(ev.op = "pfm" /\ Has(ev, "replica")) \/
  \E e \in {ReplicaObs(ev.b)} :
     \/ (KF_PoolOrderAntiDep /\ ~PoolOrderOK(blk[ev.b].txs))
     \/ (ev.replica.res = e.res /\ ev.replica.blockvalid /\ Norm(ev.replica.obs) = ObsOf(e.rec, ev.b))

(* After a known deviation has changed an outcome the node is, by the finding itself, in a state the
   IDEAL design does not have; the rest of that behaviour is not judged (until the next reset). *)
Tainted == taint
TStep ==
  /\ l <= Len(Trace) /\ div = NoDiv
  /\ LET ev == Trace[l] IN
     /\ IF Tainted /\ ev.op # "reset" THEN UNCHANGED vars ELSE Act(ev)
     /\ LET orderDev == IF ~Tainted /\ KF_PoolOrderAntiDep /\ ev.op = "mkblock" /\ Has(ev, "mined") /\ ~PoolOrderOK(ev.txs)
                         THEN {"KF_PoolOrderAntiDep"} ELSE {} IN
        /\ devAll' = devAll \cup dev' \cup orderDev
        /\ taint' = (ev.op # "reset" /\ (taint \/ dev' # {} \/ orderDev # {}))
     /\ div' = IF ~PrevCutsOK THEN [at |-> l - 1, tr |-> Trace[l - 1].tr, op |-> Trace[l - 1].op, expres |-> "-", actres |-> "-",
                                     exp |-> Obs, act |-> Trace[l - 1].cuts[1].obs, which |-> "cut"]
               ELSE IF ev.op = "reset" \/ Tainted \/ taint' THEN NoDiv
               ELSE LET r == hist'[Len(hist')].res
                        okLive == Norm(ev.obs) = Obs' /\ SeqOK(ev.obs)
                        okReopen == Has(ev, "robs") => Norm(ev.robs) = Obs'
                        okCuts == WalkCutsOK(ev)
                        okMiner == MinedOrderOK(ev) /\ ReplicaOK(ev) IN
                    IF r = ev.res /\ okLive /\ okReopen /\ okCuts /\ okMiner THEN NoDiv
                    ELSE [at |-> l, tr |-> ev.tr, op |-> ev.op, expres |-> r, actres |-> ev.res, exp |-> Obs',
                          act |-> IF okLive /\ Has(ev, "robs") THEN ev.robs ELSE ev.obs,
                          which |-> IF r # ev.res THEN "result" ELSE IF ~okLive THEN "live" ELSE IF ~okReopen THEN "reopened" ELSE IF ~okCuts THEN "cut" ELSE "miner"]
  /\ l' = l + 1
TSpec == TInit /\ [][TStep]_tvars

Book ==
  /\ (div = NoDiv /\ l > TLCGet(1)) => (TLCSet(1, l) /\ TLCSet(3, devAll))
  /\ (div # NoDiv /\ (TLCGet(2) = NoDiv \/ TLCGet(2).at < div.at)) => TLCSet(2, div)
Post == JsonSerialize("result.json", <<[hw |-> TLCGet(1), len |-> Len(Trace), div |-> TLCGet(2), dev |-> TLCGet(3)]>>)
=============================================================================
