------------------------------ MODULE Sandbox ------------------------------
(***************************************************************************)
(* The contract sandbox of kernel/contract/sandbox (XMCache): one contract *)
(* execution over a backing key/value state.                               *)
(*                                                                         *)
(*   bk    the backing state behind ledger.XMReader, per key               *)
(*           "never"  never written: the real XModel answers Get with an   *)
(*                    empty-version record; the key is in no table         *)
(*           "live"   value "o" at the key's current version               *)
(*           "del"    tombstone (delete marker at the current version)     *)
(*           "emp"    reader built from a read set (XMReaderFromRWSet)     *)
(*                    holding an empty-version record of the key           *)
(*           "nf"     reader built from a read set without the key:        *)
(*                    Get answers "not found" (an error, nothing cached)   *)
(*   mode  "idle" | "xm" (real XModel) | "rs" (reader built from a read    *)
(*         set: verification-time replay)                                  *)
(*   inp   keys in the input cache (xmcache.go inputsCache).  The cached   *)
(*         record of a key is a function of bk, so only the key set is     *)
(*         kept.  This is the MINIMAL cache: what Get / Put / the consumed *)
(*         part of a scan must read.  The code's look-ahead reads more;    *)
(*         MC_Sandbox adds those reads nondeterministically.               *)
(*   out   the output cache: key -> "-" (not written) | value | "D"        *)
(*         (delete marker).  It is at once the semantic "latest write or   *)
(*         delete of this execution".                                      *)
(*   req   keys the property demands in the read set (semantic account,    *)
(*         see ReqScan): never compared for equality with the recorded     *)
(*         read set, only for inclusion.                                   *)
(*   pool, uin, rin, uout   UTXO sandbox (state/utxo/utxo_sandbox.go):     *)
(*         pool  what the senders "a" and "b" hold when the execution      *)
(*               starts: per sender a sequence of utxo amounts (sender "z" *)
(*               holds nothing).  A utxo is [own, i, amt].                 *)
(*         uin   the utxos consumed by the transfers of this run so far,   *)
(*               in order: the recorded utxo inputs (UTXORWSet().Rset)     *)
(*         rin   "rs" mode only: the recorded inputs of the first run the  *)
(*               replay reader (sandbox/utxo.go UTXOReader) hands out,     *)
(*               cursor = Len(uin)                                         *)
(*         uout  outputs produced ([to, amt]): payment, then change        *)
(*                                                                         *)
(* Keys are pairs <<bucket, name>>, bucket 0 = the transient bucket.       *)
(* A scan Select(b, lo, hi, lim) reads names lo <= n < hi of bucket b and  *)
(* stops after lim items; hi = 0 is the empty (open) end key, lo = 0 the   *)
(* empty start key.                                                        *)
(*                                                                         *)
(* IDEAL = all KF_* FALSE: the invariants of the property hold (checked by *)
(* MC_Sandbox).  Each KF_* constant switches one disjunct to what the code *)
(* does instead (DESIGN section 4).                                        *)
(***************************************************************************)
EXTENDS Integers, Sequences, FiniteSets, TLC, SequencesExt

CONSTANTS N1, N2, NT,     \* names 1..N1 in bucket 1, 1..N2 in bucket 2, 1..NT in the transient bucket
          Vals,           \* values a program writes
          Limits,         \* early-stop limits of scans
          NU,             \* utxo scenario (0: no Transfer; else the set of pools Pools(NU) and amounts 0..MaxAmt(NU))
          MaxOps,         \* operations per execution
          KeepHist,       \* TRUE: hist is the whole history; FALSE: only the last event (model checking)
          EdgeBounds,     \* also generate empty / inverted / open-ended ranges
          KF_ScanYieldsOwnDelete,       \* scan yields a key deleted earlier in the execution, value = delete marker
          KF_ScanYieldsReadMissingKey,  \* scan yields a never-written key whose empty-version record is cached / in the read-set reader
          KF_ScanInvertedRangePanics,   \* scan with start > end over the real XModel: nil iterator dereferenced
          KF_ScanOpenEndSkipsBacking    \* scan with empty end key: the real XModel iterates nothing, the caches iterate to the bucket end

VARIABLES mode, bk, inp, out, req, pool, uin, rin, uout, nops, hist
vars == <<mode, bk, inp, out, req, pool, uin, rin, uout, nops, hist>>

TB == 0
NoPool == [a |-> <<>>, b |-> <<>>]      \* nobody holds a utxo
\* written as explicit enumerations: TLC then keeps every set derived from Keys as an explicit (eager) set value;
\* lazily evaluated set values inside states are not safe with TLC's concurrent disk queue
Keys == {<<1, n>> : n \in 1..N1} \cup {<<2, n>> : n \in 1..N2} \cup {<<TB, n>> : n \in 1..NT}
NamesOf(b) == IF b = 1 THEN N1 ELSE IF b = 2 THEN N2 ELSE NT
KeyLess(a, b) == a[1] < b[1] \/ (a[1] = b[1] /\ a[2] < b[2])
SortKeys(S) == SetToSortSeq(S, KeyLess)
Min2(a, b) == IF a < b THEN a ELSE b
Take(s, n) == SubSeq(s, 1, Min2(n, Len(s)))

NoWrite == "-"
DelMark == "D"
Absent == "-"
OldVal == "o"
EntryVal(st) == IF st = "live" THEN OldVal ELSE IF st = "del" THEN DelMark ELSE ""   \* value of the versioned record of a key

(* ------------------------------------------------------------------ semantics ------ *)
(* what a read of k observes: the latest write or delete of this execution, else the backing state *)
SemVal(bx, o, k) == IF o[k] # NoWrite THEN (IF o[k] = DelMark THEN Absent ELSE o[k])
                    ELSE IF bx[k] = "live" THEN OldVal ELSE Absent
InRange(k, b, lo, hi) == k[1] = b /\ k[2] >= lo /\ (hi = 0 \/ k[2] < hi)
(* the keys of S (all of one bucket b) in key order with their values: no sorting needed, names are 1..N *)
Entries(b, S, val(_)) == LET s == SelectSeq([n \in 1..NamesOf(b) |-> <<b, n>>], LAMBDA k : k \in S)
                         IN [j \in 1..Len(s) |-> [k |-> s[j], v |-> val(s[j])]]
(* exactly the live keys of the range, in order *)
SemFull(bx, o, b, lo, hi) ==
  Entries(b, {k \in Keys : InRange(k, b, lo, hi) /\ SemVal(bx, o, k) # Absent}, LAMBDA k : SemVal(bx, o, k))

(* ------------------------------------------------------------------ mechanism ------ *)
(* iterator.go: multiIterator = merge of two ordered streams, the front one wins on equal keys *)
RECURSIVE Merge(_, _)
Merge(f, b) == IF f = <<>> THEN b ELSE IF b = <<>> THEN f
               ELSE IF f[1].k = b[1].k THEN <<f[1]>> \o Merge(Tail(f), Tail(b))
               ELSE IF KeyLess(f[1].k, b[1].k) THEN <<f[1]>> \o Merge(Tail(f), b)
               ELSE <<b[1]>> \o Merge(f, Tail(b))
StripDel(s) == SelectSeq(s, LAMBDA e : e.v # DelMark)
StripEmp(s) == SelectSeq(s, LAMBDA e : e.v # "")      \* programs never write the empty value: "" <=> empty-version record

(* newXModelCacheIterator: multi(outputs, multi(strip(inputs), strip(rset(backend)))).            *)
(* IDEAL strips delete markers from the merged stream (they must shadow the backend first) and   *)
(* empty-version records from the two inner streams.                                             *)
MechFull(kfDel, kfEmp, kfOpen, bx, m, i, o, b, lo, hi) ==
  LET R       == {k \in Keys : InRange(k, b, lo, hi)}
      strip(s) == IF kfEmp THEN StripDel(s) ELSE StripEmp(StripDel(s))
      outSeq  == Entries(b, {k \in R : o[k] # NoWrite}, LAMBDA k : o[k])
      inSeq   == strip(Entries(b, R \cap i, LAMBDA k : EntryVal(bx[k])))
      table   == IF m = "xm" THEN (IF hi = 0 /\ kfOpen THEN {} ELSE {k \in R : bx[k] = "live"})
                 ELSE {k \in R : bx[k] \in {"live", "del", "emp"}}
      backSeq == strip(Entries(b, table, LAMBDA k : EntryVal(bx[k])))
      merged  == Merge(outSeq, Merge(inSeq, backSeq))
  IN IF kfDel THEN merged ELSE StripDel(merged)

Mech(bx, m, i, o, b, lo, hi) ==
  MechFull(KF_ScanYieldsOwnDelete, KF_ScanYieldsReadMissingKey, KF_ScanOpenEndSkipsBacking, bx, m, i, o, b, lo, hi)

(* deviations that changed the first lim items of this scan *)
ScanDev(bx, m, i, o, b, lo, hi, lim) ==
  LET A == Take(Mech(bx, m, i, o, b, lo, hi), lim)
      alt(d, e, p) == Take(MechFull(d, e, p, bx, m, i, o, b, lo, hi), lim)
      D == KF_ScanYieldsOwnDelete  E == KF_ScanYieldsReadMissingKey  P == KF_ScanOpenEndSkipsBacking
  IN (IF D /\ alt(FALSE, E, P) # A THEN {"KF_ScanYieldsOwnDelete"} ELSE {})
     \cup (IF E /\ alt(D, FALSE, P) # A THEN {"KF_ScanYieldsReadMissingKey"} ELSE {})
     \cup (IF P /\ alt(D, E, FALSE) # A THEN {"KF_ScanOpenEndSkipsBacking"} ELSE {})

(* Keys of the backing state whose value or presence the consumed part of a scan observed: the   *)
(* backing-live, not overwritten keys up to the last item handed out (the whole range once the   *)
(* end of the scan was observed, i.e. fewer than lim items existed).  Never-written and deleted  *)
(* keys inside the range are NOT demanded (R6: a read set of versioned keys cannot name a key    *)
(* the scan never saw; the replay clause of the property does not need them either).             *)
ReqScan(bx, m, o, full, b, lo, hi, lim) ==
  LET R == IF m = "xm" /\ hi = 0 /\ KF_ScanOpenEndSkipsBacking THEN {}     \* the deviating scan never looks at the backing state
           ELSE {k \in Keys : InRange(k, b, lo, hi) /\ o[k] = NoWrite /\ bx[k] = "live"}
  IN IF Len(full) < lim THEN R
     ELSE IF lim = 0 THEN {}
     ELSE {k \in R : ~KeyLess(full[lim].k, k)}

(* ------------------------------------------------------------------ state ---------- *)
Idle == [k \in Keys |-> "never"]
Init == /\ mode = "idle" /\ bk = Idle /\ inp = {} /\ out = [k \in Keys |-> NoWrite] /\ req = {}
        /\ pool = NoPool /\ uin = <<>> /\ rin = <<>> /\ uout = <<>> /\ nops = 0 /\ hist = <<>>
Reset == /\ mode' = "idle" /\ bk' = Idle /\ inp' = {} /\ out' = [k \in Keys |-> NoWrite] /\ req' = {}
         /\ pool' = NoPool /\ uin' = <<>> /\ rin' = <<>> /\ uout' = <<>> /\ nops' = 0 /\ hist' = <<>>

Log(e) == /\ hist' = IF KeepHist THEN Append(hist, e) ELSE <<e>>
          /\ nops' = nops + 1
NoItems == <<>>
NoDev == {}
Items(s) == [j \in 1..Len(s) |-> [n |-> s[j].k[2], v |-> s[j].v]]
BkSeq(f) == LET s == SortKeys(Keys) IN [j \in 1..Len(s) |-> [b |-> s[j][1], n |-> s[j][2], st |-> f[s[j]]]]

XmStates == [Keys -> {"never", "live", "del"}]
(* A new execution over a real XModel in state f (transient keys are never persisted). *)
Start(f, p) ==
  /\ mode = "idle" /\ f \in XmStates /\ \A k \in Keys : k[1] = TB => f[k] = "never"
  /\ mode' = "xm" /\ bk' = f /\ pool' = p
  /\ UNCHANGED <<inp, out, req, uin, rin, uout>>
  /\ hist' = <<[op |-> "init", bk |-> BkSeq(f), pool |-> p]>> /\ nops' = 0

(* The verification-time run: the same calls over readers built from the recorded read set rs      *)
(* (XMReaderFromRWSet) and the recorded utxo inputs (NewUTXOReaderFromInput) alone.                 *)
Replay(rs, ri) ==
  /\ mode = "xm"
  /\ mode' = "rs" /\ rin' = ri /\ UNCHANGED pool
  /\ bk' = [k \in Keys |->
             IF \E i \in 1..Len(rs) : rs[i].b = k[1] /\ rs[i].n = k[2]
             THEN LET v == rs[CHOOSE i \in 1..Len(rs) : rs[i].b = k[1] /\ rs[i].n = k[2]].v
                  IN IF v = OldVal THEN "live" ELSE IF v = DelMark THEN "del" ELSE "emp"
             ELSE "nf"]
  /\ inp' = {} /\ out' = [k \in Keys |-> NoWrite] /\ req' = {} /\ uin' = <<>> /\ uout' = <<>>
  /\ hist' = <<[op |-> "replay"]>> /\ nops' = 0

(* RWSet() / UTXORWSet() after Flush(): a pure observation *)
Finish ==
  /\ mode \in {"xm", "rs"}
  /\ UNCHANGED <<mode, bk, inp, out, req, pool, uin, rin, uout, nops>>
  /\ hist' = IF KeepHist THEN Append(hist, [op |-> "rwset"]) ELSE <<[op |-> "rwset"]>>

Running == mode \in {"xm", "rs"} /\ nops < MaxOps

(* does the access of k reach the backing reader, and does the reader have a record to cache? *)
Reads(k) == out[k] = NoWrite /\ bk[k] # "nf"

Get(k) ==
  /\ Running /\ k \in Keys
  /\ inp' = IF Reads(k) THEN inp \cup {k} ELSE inp
  /\ req' = IF Reads(k) /\ k[1] # TB THEN req \cup {k} ELSE req
  /\ UNCHANGED <<mode, bk, out, pool, uin, rin, uout>>
  /\ Log([op |-> "get", b |-> k[1], n |-> k[2], res |-> SemVal(bk, out, k), items |-> NoItems, dv |-> NoDev])

(* Put forces a read of the key first (not for the transient bucket); Del = Put of the delete marker *)
Write(k, v, e) ==
  /\ Running /\ k \in Keys
  /\ out' = [out EXCEPT ![k] = v]
  /\ inp' = IF k[1] # TB /\ Reads(k) THEN inp \cup {k} ELSE inp
  /\ req' = IF k[1] # TB /\ Reads(k) THEN req \cup {k} ELSE req
  /\ UNCHANGED <<mode, bk, pool, uin, rin, uout>>
  /\ Log(e)
Put(k, v) == v \in Vals /\ Write(k, v, [op |-> "put", b |-> k[1], n |-> k[2], v |-> v, res |-> "ok", items |-> NoItems, dv |-> NoDev])
Del(k) == Write(k, DelMark, [op |-> "del", b |-> k[1], n |-> k[2], res |-> "ok", items |-> NoItems, dv |-> NoDev])

(* over(need): the sets of further backing keys the iterator's look-ahead may read besides need   *)
(* ({{}} here: the minimal cache; MC_Sandbox supplies the alternatives)                            *)
Select(b, lo, hi, lim, over(_)) ==
  /\ Running /\ b \in {TB, 1, 2} /\ lim >= 0
  /\ LET ev(r, it, d, nd) == [op |-> "select", b |-> b, lo |-> lo, hi |-> hi, lim |-> lim, res |-> r, items |-> it,
                              dv |-> d, need |-> nd] IN
     IF hi # 0 /\ lo > hi THEN      \* inverted range: the sandbox's own ordered maps refuse it
        /\ UNCHANGED <<mode, bk, inp, out, req, pool, uin, rin, uout>>
        /\ IF mode = "xm" /\ KF_ScanInvertedRangePanics
           THEN Log(ev("panic", NoItems, {"KF_ScanInvertedRangePanics"}, {}))
           ELSE Log(ev("err", NoItems, NoDev, {}))
     ELSE
        LET full == Mech(bk, mode, inp, out, b, lo, hi)
            need == ReqScan(bk, mode, out, full, b, lo, hi, lim)
        IN /\ inp' \in {inp \cup need \cup x : x \in over(need)}
           /\ req' = req \cup need
           /\ UNCHANGED <<mode, bk, out, pool, uin, rin, uout>>
           /\ Log(ev("ok", Items(Take(full, lim)), ScanDev(bk, mode, inp, out, b, lo, hi, lim), need))

(* ------------------------------------------------------------------ utxo sandbox -- *)
(* utxo_sandbox.go Transfer(from, to, amt): a zero amount is refused before any selection; else the utxo reader      *)
(* selects whole utxos of `from` until the amount is covered (SelectUtxo), the inputs are recorded, the payment and   *)
(* the change (back to `from`) are the outputs.  A failed transfer leaves no trace (the contract may go on).          *)
(*   first run ("xm"): the node's reader hands out unspent, not yet selected utxos of the sender in an order of its    *)
(*     own (a Go map and a wrapping storage iterator) and stops as soon as the amount is covered: `pick(free, amt)`    *)
(*     is the set of selections the caller admits; it fails iff all the sender's free utxos together do not cover.    *)
(*   replay ("rs"): sandbox/utxo.go UTXOReader walks the recorded inputs from its cursor; an input of another sender  *)
(*     met before the amount is covered, or running out of inputs, is an error that does NOT move the cursor.         *)
Froms == {"a", "b", "z"}      \* "z": a sender that holds nothing
Tos   == {"x", "a"}           \* a third party, or an address that is also a sender (payment to oneself included)
Held(p, f) == IF f = "a" THEN p.a ELSE IF f = "b" THEN p.b ELSE <<>>
RECURSIVE SumAmt(_)
SumAmt(s) == IF s = <<>> THEN 0 ELSE s[1].amt + SumAmt(Tail(s))
AllU(p, f) == [i \in 1..Len(Held(p, f)) |-> [own |-> f, i |-> i, amt |-> Held(p, f)[i]]]
FreeSeq(p, ui, f) == SelectSeq(AllU(p, f), LAMBDA u : \A j \in 1..Len(ui) : ui[j] # u)
SeqRange(s) == {s[j] : j \in 1..Len(s)}
Injective(s) == \A i, j \in 1..Len(s) : s[i] = s[j] => i = j
(* the selection stops as soon as the amount is covered *)
Greedy(sel, amt) == sel # <<>> /\ SumAmt(sel) >= amt /\ SumAmt(SubSeq(sel, 1, Len(sel) - 1)) < amt
InOrderSel(free, amt) ==      \* {the shortest covering prefix}: what a reader iterating in index order takes
  {SubSeq(free, 1, n) : n \in {m \in 1..Len(free) : Greedy(SubSeq(free, 1, m), amt)}}
AnyOrderSel(free, amt) ==     \* every order a reader may iterate in
  {s \in UNION {[1..n -> SeqRange(free)] : n \in 1..Len(free)} : Injective(s) /\ Greedy(s, amt)}
(* what the first run may record for a successful transfer: distinct free utxos of the sender covering the amount *)
CoveringSel(p, ui, f, amt, sel) == /\ Injective(sel) /\ SeqRange(sel) \subseteq SeqRange(FreeSeq(p, ui, f))
                                   /\ SumAmt(sel) >= amt
(* sandbox/utxo.go SelectUtxo over the recorded inputs ri with the cursor at c; <<>> = error *)
RsSel(ri, c, f, amt) ==
  LET rest == SubSeq(ri, c + 1, Len(ri))
      ns   == {n \in 1..Len(rest) : SumAmt(SubSeq(rest, 1, n)) >= amt}
  IN IF ns = {} THEN <<>>
     ELSE LET n == CHOOSE m \in ns : \A k \in ns : m <= k
          IN IF \A j \in 1..n : rest[j].own = f THEN SubSeq(rest, 1, n) ELSE <<>>
Outs(f, to, amt, sel) == <<[to |-> to, amt |-> amt]>> \o
                         (IF SumAmt(sel) > amt THEN <<[to |-> f, amt |-> SumAmt(sel) - amt]>> ELSE <<>>)

(* zeroOk: R3 - the property does not say whether a zero amount is refused (what the code does) or is a payment of     *)
(* nothing that takes no input; only that the replay does the same.                                                   *)
Transfer(f, to, amt, pick(_, _), zeroOk) ==
  /\ Running /\ amt >= 0
  /\ LET ev(r, sel, o) == [op |-> "transfer", from |-> f, to |-> to, amt |-> amt, res |-> r, items |-> NoItems, dv |-> NoDev,
                            sel |-> sel, outs |-> o]
         fail == UNCHANGED <<mode, bk, inp, out, req, pool, uin, rin, uout>> /\ Log(ev("err", <<>>, <<>>))
         ok(sel) == /\ uin' = uin \o sel
                    /\ uout' = uout \o Outs(f, to, amt, sel)
                    /\ UNCHANGED <<mode, bk, inp, out, req, pool, rin>>
                    /\ Log(ev("ok", sel, Outs(f, to, amt, sel)))
     IN IF amt = 0 THEN (IF zeroOk THEN ok(<<>>) ELSE fail)
        ELSE IF mode = "rs"
             THEN LET sel == RsSel(rin, Len(uin), f, amt) IN IF sel = <<>> THEN fail ELSE ok(sel)
             ELSE LET free == FreeSeq(pool, uin, f) IN
                  IF SumAmt(free) < amt THEN fail ELSE \E sel \in pick(free, amt) : ok(sel)

(* utxo scenarios: what "a" and "b" hold (the cfg cannot hold sequences) and the amounts tried *)
Pools(nu) == IF nu = 0 THEN {NoPool}
             ELSE IF nu = 1 THEN {[a |-> <<1, 2>>, b |-> <<2>>]}
             ELSE IF nu = 2 THEN {[a |-> <<2, 2>>, b |-> <<>>], [a |-> <<1, 2>>, b |-> <<2>>], [a |-> <<3, 1>>, b |-> <<1, 1>>]}
             ELSE {[a |-> <<2, 2, 2, 2>>, b |-> <<1, 3>>], [a |-> <<1, 2, 3>>, b |-> <<2, 2, 1>>], [a |-> <<4, 1, 1>>, b |-> <<5>>]}
MaxAmt(nu) == IF nu = 0 THEN 0 ELSE IF nu = 1 THEN 4 ELSE IF nu = 2 THEN 5 ELSE 7

(* ------------------------------------------------------------------ programs ------- *)
ProperRanges(b) == {<<lo, hi>> \in (1..NamesOf(b)) \X (2..(NamesOf(b) + 1)) : lo < hi}
EdgeRanges(b)   == IF b = 1 THEN {<<0, 0>>, <<0, N1 + 1>>, <<1, 0>>, <<2, 0>>, <<2, 2>>, <<2, 1>>, <<N1, 1>>} ELSE {}
Ranges(b) == ProperRanges(b) \cup (IF EdgeBounds THEN EdgeRanges(b) ELSE {})

Step ==
  \/ \E k \in Keys : Get(k) \/ Del(k) \/ \E v \in Vals : Put(k, v)
  \/ \E b \in {TB, 1, 2} : \E r \in Ranges(b) : \E lim \in Limits : Select(b, r[1], r[2], lim, LAMBDA nd : {{}})
  \/ NU > 0 /\ \E f \in Froms : \E to \in Tos : \E amt \in 0..MaxAmt(NU) : Transfer(f, to, amt, InOrderSel, FALSE)
Next == (mode = "idle" /\ \E f \in XmStates : \E p \in Pools(NU) : Start(f, p)) \/ Step
Spec == Init /\ [][Next]_vars

(* ------------------------------------------------------------------ observables ---- *)
WSetSeq(o) == LET s == SortKeys({k \in Keys : o[k] # NoWrite}) IN [j \in 1..Len(s) |-> [b |-> s[j][1], n |-> s[j][2], v |-> o[s[j]]]]
KeySeq(S) == LET s == SortKeys(S) IN [j \in 1..Len(s) |-> [b |-> s[j][1], n |-> s[j][2]]]
Obs == [req |-> KeySeq(req), wset |-> WSetSeq(out)]

(* A recorded read set rs (sequence of [b, n, ver, v]; ver: 0 = empty version and the backing state  *)
(* has never seen the key, 1 = the key's current version in the backing state, anything else = some *)
(* other version) is sound for this execution:                                                      *)
(* distinct keys, each with the version and value the backing state holds, covering req.  It is a  *)
(* constraint, not a pin: further keys (look-ahead) are allowed.                                    *)
RSetOkX(bx, rq, o, m, rs) ==
  /\ \A i \in 1..Len(rs) :
        IF <<rs[i].b, rs[i].n>> \in Keys
        THEN LET st == bx[<<rs[i].b, rs[i].n>>] IN
             /\ st # "nf"
             /\ rs[i].ver = (IF st \in {"live", "del"} THEN 1 ELSE 0)
             /\ rs[i].v = EntryVal(st)
        ELSE \* an over-read outside the program's key universe (b = 9, n = -1, -2, ..): the version the backing state holds
             rs[i].b = 9 /\ rs[i].ver \in {0, 1}
  /\ \A i, j \in 1..Len(rs) : (rs[i].b = rs[j].b /\ rs[i].n = rs[j].n) => i = j
  /\ \A k \in rq : \E i \in 1..Len(rs) : rs[i].b = k[1] /\ rs[i].n = k[2]
  \* the written keys outside the transient bucket are read keys (follows from req; stated for the record)
  /\ m = "xm" => \A k \in Keys : (k[1] # TB /\ o[k] # NoWrite) => \E i \in 1..Len(rs) : rs[i].b = k[1] /\ rs[i].n = k[2]
RSetOk(rs) == RSetOkX(bk, req, out, mode, rs)

(* ------------------------------------------------------------------ invariants ----- *)
TypeOK ==
  /\ mode \in {"idle", "xm", "rs"}
  /\ bk \in [Keys -> {"never", "live", "del", "emp", "nf"}]
  /\ inp \subseteq Keys /\ req \subseteq Keys
  /\ out \in [Keys -> Vals \cup {NoWrite, DelMark}]
  /\ pool.a \in Seq(Nat) /\ pool.b \in Seq(Nat)
  /\ \A j \in 1..Len(uin) : uin[j].own \in {"a", "b"} /\ uin[j].i \in 1..Len(Held(pool, uin[j].own))
  /\ Injective(uin)
  /\ mode = "rs" => (Len(uin) <= Len(rin) /\ uin = SubSeq(rin, 1, Len(uin)))
(* the modelled cache discipline yields a sound read set: demanded keys and written keys are cached *)
ReadSetSound ==
  /\ req \subseteq inp
  /\ mode = "xm" => \A k \in Keys : (k[1] # TB /\ out[k] # NoWrite) => k \in inp
  /\ \A k \in inp : bk[k] # "nf"
(* action properties, checked on every transition: the mechanism's answers are the semantic ones *)
LastEv == hist'[Len(hist')]
ScanReadsWhatItSaw == [][(Len(hist') > 0 /\ LastEv.op = "select" /\ LastEv.res = "ok") => LastEv.need \subseteq inp']_vars
ReadYourWrites ==
  [][(Len(hist') > 0 /\ LastEv.op = "get") =>
       LastEv.res = (LET k == <<LastEv.b, LastEv.n>> IN
                   IF out[k] = DelMark THEN Absent ELSE IF out[k] # NoWrite THEN out[k]
                   ELSE IF bk[k] = "live" THEN OldVal ELSE Absent)]_vars
ScanExact ==
  [][(Len(hist') > 0 /\ LastEv.op = "select" /\ LastEv.res = "ok") =>
       /\ LastEv.items = Items(Take(SemFull(bk, out, LastEv.b, LastEv.lo, LastEv.hi), LastEv.lim))
       /\ \A j \in 1..Len(LastEv.items) : LastEv.items[j].v \notin {DelMark, ""}
       /\ \A j \in 1..(Len(LastEv.items) - 1) : LastEv.items[j].n < LastEv.items[j + 1].n]_vars
ScanRefusesInverted ==
  [][(Len(hist') > 0 /\ LastEv.op = "select" /\ LastEv.hi # 0 /\ LastEv.lo > LastEv.hi) => LastEv.res = "err"]_vars
UtxoBalanced == SumAmt(uout) = SumAmt(uin)      \* what the transfers consumed is what they paid out
=============================================================================
