------------------------------ MODULE Sandbox ------------------------------
(***************************************************************************)
(* The contract sandbox of kernel/contract/sandbox (XMCache): one contract *)
(* execution over a backing key/value state.                               *)
(*                                                                         *)
(*   bk    the backing state behind ledger.XMReader, per key               *)
(*           "never"  never written: the real XModel answers Get with an   *)
(*                    empty-version record; the key is in no table         *)
(*           "live"   value "o" at the key's current version               *)
(*           "del"    tombstone (delete marker at the current version)     *)
(*           "emp"    reader built from a read set (XMReaderFromRWSet)     *)
(*                    holding an empty-version record of the key           *)
(*           "nf"     reader built from a read set without the key:        *)
(*                    Get answers "not found" (an error, nothing cached)   *)
(*   mode  "idle" | "xm" (real XModel) | "rs" (reader built from a read    *)
(*         set: verification-time replay)                                  *)
(*   inp   keys in the input cache (xmcache.go inputsCache).  The cached   *)
(*         record of a key is a function of bk, so only the key set is     *)
(*         kept.  This is the MINIMAL cache: what Get / Put / the consumed *)
(*         part of a scan must read.  The code's look-ahead reads more;    *)
(*         MC_Sandbox adds those reads nondeterministically.               *)
(*   out   the output cache: key -> "-" (not written) | value | "D"        *)
(*         (delete marker).  It is at once the semantic "latest write or   *)
(*         delete of this execution".                                      *)
(*   req   keys the property demands in the read set (semantic account,    *)
(*         see ReqScan): never compared for equality with the recorded     *)
(*         read set, only for inclusion.                                   *)
(*   pool, un, uout   UTXO sandbox: utxos (each worth UAmt) the reader can *)
(*         hand out, number consumed, outputs produced ([to, amt]).        *)
(*                                                                         *)
(* Keys are pairs <<bucket, name>>, bucket 0 = the transient bucket.       *)
(* A scan Select(b, lo, hi, lim) reads names lo <= n < hi of bucket b and  *)
(* stops after lim items; hi = 0 is the empty (open) end key, lo = 0 the   *)
(* empty start key.                                                        *)
(*                                                                         *)
(* IDEAL = all KF_* FALSE: the invariants of the property hold (checked by *)
(* MC_Sandbox).  Each KF_* constant switches one disjunct to what the code *)
(* does instead (DESIGN section 4).                                        *)
(***************************************************************************)
EXTENDS Integers, Sequences, FiniteSets, TLC, SequencesExt

CONSTANTS N1, N2, NT,     \* names 1..N1 in bucket 1, 1..N2 in bucket 2, 1..NT in the transient bucket
          Vals,           \* values a program writes
          Limits,         \* early-stop limits of scans
          NU,             \* utxos of the paying account (0: no Transfer)
          MaxOps,         \* operations per execution
          KeepHist,       \* TRUE: hist is the whole history; FALSE: only the last event (model checking)
          EdgeBounds,     \* also generate empty / inverted / open-ended ranges
          KF_ScanYieldsOwnDelete,       \* scan yields a key deleted earlier in the execution, value = delete marker
          KF_ScanYieldsReadMissingKey,  \* scan yields a never-written key whose empty-version record is cached / in the read-set reader
          KF_ScanInvertedRangePanics,   \* scan with start > end over the real XModel: nil iterator dereferenced
          KF_ScanOpenEndSkipsBacking    \* scan with empty end key: the real XModel iterates nothing, the caches iterate to the bucket end

VARIABLES mode, bk, inp, out, req, pool, un, uout, nops, hist
vars == <<mode, bk, inp, out, req, pool, un, uout, nops, hist>>

TB == 0
UAmt == 2
\* written as explicit enumerations: TLC then keeps every set derived from Keys as an explicit (eager) set value;
\* lazily evaluated set values inside states are not safe with TLC's concurrent disk queue
Keys == {<<1, n>> : n \in 1..N1} \cup {<<2, n>> : n \in 1..N2} \cup {<<TB, n>> : n \in 1..NT}
NamesOf(b) == IF b = 1 THEN N1 ELSE IF b = 2 THEN N2 ELSE NT
KeyLess(a, b) == a[1] < b[1] \/ (a[1] = b[1] /\ a[2] < b[2])
SortKeys(S) == SetToSortSeq(S, KeyLess)
Min2(a, b) == IF a < b THEN a ELSE b
Take(s, n) == SubSeq(s, 1, Min2(n, Len(s)))

NoWrite == "-"
DelMark == "D"
Absent == "-"
OldVal == "o"
EntryVal(st) == IF st = "live" THEN OldVal ELSE IF st = "del" THEN DelMark ELSE ""   \* value of the versioned record of a key

(* ------------------------------------------------------------------ semantics ------ *)
(* what a read of k observes: the latest write or delete of this execution, else the backing state *)
SemVal(bx, o, k) == IF o[k] # NoWrite THEN (IF o[k] = DelMark THEN Absent ELSE o[k])
                    ELSE IF bx[k] = "live" THEN OldVal ELSE Absent
InRange(k, b, lo, hi) == k[1] = b /\ k[2] >= lo /\ (hi = 0 \/ k[2] < hi)
(* the keys of S (all of one bucket b) in key order with their values: no sorting needed, names are 1..N *)
Entries(b, S, val(_)) == LET s == SelectSeq([n \in 1..NamesOf(b) |-> <<b, n>>], LAMBDA k : k \in S)
                         IN [j \in 1..Len(s) |-> [k |-> s[j], v |-> val(s[j])]]
(* exactly the live keys of the range, in order *)
SemFull(bx, o, b, lo, hi) ==
  Entries(b, {k \in Keys : InRange(k, b, lo, hi) /\ SemVal(bx, o, k) # Absent}, LAMBDA k : SemVal(bx, o, k))

(* ------------------------------------------------------------------ mechanism ------ *)
(* iterator.go: multiIterator = merge of two ordered streams, the front one wins on equal keys *)
RECURSIVE Merge(_, _)
Merge(f, b) == IF f = <<>> THEN b ELSE IF b = <<>> THEN f
               ELSE IF f[1].k = b[1].k THEN <<f[1]>> \o Merge(Tail(f), Tail(b))
               ELSE IF KeyLess(f[1].k, b[1].k) THEN <<f[1]>> \o Merge(Tail(f), b)
               ELSE <<b[1]>> \o Merge(f, Tail(b))
StripDel(s) == SelectSeq(s, LAMBDA e : e.v # DelMark)
StripEmp(s) == SelectSeq(s, LAMBDA e : e.v # "")      \* programs never write the empty value: "" <=> empty-version record

(* newXModelCacheIterator: multi(outputs, multi(strip(inputs), strip(rset(backend)))).            *)
(* IDEAL strips delete markers from the merged stream (they must shadow the backend first) and   *)
(* empty-version records from the two inner streams.                                             *)
MechFull(kfDel, kfEmp, kfOpen, bx, m, i, o, b, lo, hi) ==
  LET R       == {k \in Keys : InRange(k, b, lo, hi)}
      strip(s) == IF kfEmp THEN StripDel(s) ELSE StripEmp(StripDel(s))
      outSeq  == Entries(b, {k \in R : o[k] # NoWrite}, LAMBDA k : o[k])
      inSeq   == strip(Entries(b, R \cap i, LAMBDA k : EntryVal(bx[k])))
      table   == IF m = "xm" THEN (IF hi = 0 /\ kfOpen THEN {} ELSE {k \in R : bx[k] = "live"})
                 ELSE {k \in R : bx[k] \in {"live", "del", "emp"}}
      backSeq == strip(Entries(b, table, LAMBDA k : EntryVal(bx[k])))
      merged  == Merge(outSeq, Merge(inSeq, backSeq))
  IN IF kfDel THEN merged ELSE StripDel(merged)

Mech(bx, m, i, o, b, lo, hi) ==
  MechFull(KF_ScanYieldsOwnDelete, KF_ScanYieldsReadMissingKey, KF_ScanOpenEndSkipsBacking, bx, m, i, o, b, lo, hi)

(* deviations that changed the first lim items of this scan *)
ScanDev(bx, m, i, o, b, lo, hi, lim) ==
  LET A == Take(Mech(bx, m, i, o, b, lo, hi), lim)
      alt(d, e, p) == Take(MechFull(d, e, p, bx, m, i, o, b, lo, hi), lim)
      D == KF_ScanYieldsOwnDelete  E == KF_ScanYieldsReadMissingKey  P == KF_ScanOpenEndSkipsBacking
  IN (IF D /\ alt(FALSE, E, P) # A THEN {"KF_ScanYieldsOwnDelete"} ELSE {})
     \cup (IF E /\ alt(D, FALSE, P) # A THEN {"KF_ScanYieldsReadMissingKey"} ELSE {})
     \cup (IF P /\ alt(D, E, FALSE) # A THEN {"KF_ScanOpenEndSkipsBacking"} ELSE {})

(* Keys of the backing state whose value or presence the consumed part of a scan observed: the   *)
(* backing-live, not overwritten keys up to the last item handed out (the whole range once the   *)
(* end of the scan was observed, i.e. fewer than lim items existed).  Never-written and deleted  *)
(* keys inside the range are NOT demanded (R6: a read set of versioned keys cannot name a key    *)
(* the scan never saw; the replay clause of the property does not need them either).             *)
ReqScan(bx, m, o, full, b, lo, hi, lim) ==
  LET R == IF m = "xm" /\ hi = 0 /\ KF_ScanOpenEndSkipsBacking THEN {}     \* the deviating scan never looks at the backing state
           ELSE {k \in Keys : InRange(k, b, lo, hi) /\ o[k] = NoWrite /\ bx[k] = "live"}
  IN IF Len(full) < lim THEN R
     ELSE IF lim = 0 THEN {}
     ELSE {k \in R : ~KeyLess(full[lim].k, k)}

(* ------------------------------------------------------------------ state ---------- *)
Idle == [k \in Keys |-> "never"]
Init == /\ mode = "idle" /\ bk = Idle /\ inp = {} /\ out = [k \in Keys |-> NoWrite] /\ req = {}
        /\ pool = 0 /\ un = 0 /\ uout = <<>> /\ nops = 0 /\ hist = <<>>
Reset == /\ mode' = "idle" /\ bk' = Idle /\ inp' = {} /\ out' = [k \in Keys |-> NoWrite] /\ req' = {}
         /\ pool' = 0 /\ un' = 0 /\ uout' = <<>> /\ nops' = 0 /\ hist' = <<>>

Log(e) == /\ hist' = IF KeepHist THEN Append(hist, e) ELSE <<e>>
          /\ nops' = nops + 1
NoItems == <<>>
NoDev == {}
Items(s) == [j \in 1..Len(s) |-> [n |-> s[j].k[2], v |-> s[j].v]]
BkSeq(f) == LET s == SortKeys(Keys) IN [j \in 1..Len(s) |-> [b |-> s[j][1], n |-> s[j][2], st |-> f[s[j]]]]

XmStates == [Keys -> {"never", "live", "del"}]
(* A new execution over a real XModel in state f (transient keys are never persisted). *)
Start(f, nu) ==
  /\ mode = "idle" /\ f \in XmStates /\ \A k \in Keys : k[1] = TB => f[k] = "never"
  /\ mode' = "xm" /\ bk' = f /\ pool' = nu
  /\ UNCHANGED <<inp, out, req, un, uout>>
  /\ hist' = <<[op |-> "init", bk |-> BkSeq(f), nu |-> nu]>> /\ nops' = 0

(* The verification-time run: the same calls over readers built from the recorded read set rs      *)
(* (XMReaderFromRWSet) and the recorded utxo inputs (NewUTXOReaderFromInput) alone.                 *)
Replay(rs, nin) ==
  /\ mode = "xm"
  /\ mode' = "rs" /\ pool' = nin
  /\ bk' = [k \in Keys |->
             IF \E i \in 1..Len(rs) : rs[i].b = k[1] /\ rs[i].n = k[2]
             THEN LET v == rs[CHOOSE i \in 1..Len(rs) : rs[i].b = k[1] /\ rs[i].n = k[2]].v
                  IN IF v = OldVal THEN "live" ELSE IF v = DelMark THEN "del" ELSE "emp"
             ELSE "nf"]
  /\ inp' = {} /\ out' = [k \in Keys |-> NoWrite] /\ req' = {} /\ un' = 0 /\ uout' = <<>>
  /\ hist' = <<[op |-> "replay"]>> /\ nops' = 0

(* RWSet() / UTXORWSet() after Flush(): a pure observation *)
Finish ==
  /\ mode \in {"xm", "rs"}
  /\ UNCHANGED <<mode, bk, inp, out, req, pool, un, uout, nops>>
  /\ hist' = IF KeepHist THEN Append(hist, [op |-> "rwset"]) ELSE <<[op |-> "rwset"]>>

Running == mode \in {"xm", "rs"} /\ nops < MaxOps

(* does the access of k reach the backing reader, and does the reader have a record to cache? *)
Reads(k) == out[k] = NoWrite /\ bk[k] # "nf"

Get(k) ==
  /\ Running /\ k \in Keys
  /\ inp' = IF Reads(k) THEN inp \cup {k} ELSE inp
  /\ req' = IF Reads(k) /\ k[1] # TB THEN req \cup {k} ELSE req
  /\ UNCHANGED <<mode, bk, out, pool, un, uout>>
  /\ Log([op |-> "get", b |-> k[1], n |-> k[2], res |-> SemVal(bk, out, k), items |-> NoItems, dv |-> NoDev])

(* Put forces a read of the key first (not for the transient bucket); Del = Put of the delete marker *)
Write(k, v, e) ==
  /\ Running /\ k \in Keys
  /\ out' = [out EXCEPT ![k] = v]
  /\ inp' = IF k[1] # TB /\ Reads(k) THEN inp \cup {k} ELSE inp
  /\ req' = IF k[1] # TB /\ Reads(k) THEN req \cup {k} ELSE req
  /\ UNCHANGED <<mode, bk, pool, un, uout>>
  /\ Log(e)
Put(k, v) == v \in Vals /\ Write(k, v, [op |-> "put", b |-> k[1], n |-> k[2], v |-> v, res |-> "ok", items |-> NoItems, dv |-> NoDev])
Del(k) == Write(k, DelMark, [op |-> "del", b |-> k[1], n |-> k[2], res |-> "ok", items |-> NoItems, dv |-> NoDev])

(* over(need): the sets of further backing keys the iterator's look-ahead may read besides need   *)
(* ({{}} here: the minimal cache; MC_Sandbox supplies the alternatives)                            *)
Select(b, lo, hi, lim, over(_)) ==
  /\ Running /\ b \in {TB, 1, 2} /\ lim >= 0
  /\ LET ev(r, it, d, nd) == [op |-> "select", b |-> b, lo |-> lo, hi |-> hi, lim |-> lim, res |-> r, items |-> it,
                              dv |-> d, need |-> nd] IN
     IF hi # 0 /\ lo > hi THEN      \* inverted range: the sandbox's own ordered maps refuse it
        /\ UNCHANGED <<mode, bk, inp, out, req, pool, un, uout>>
        /\ IF mode = "xm" /\ KF_ScanInvertedRangePanics
           THEN Log(ev("panic", NoItems, {"KF_ScanInvertedRangePanics"}, {}))
           ELSE Log(ev("err", NoItems, NoDev, {}))
     ELSE
        LET full == Mech(bk, mode, inp, out, b, lo, hi)
            need == ReqScan(bk, mode, out, full, b, lo, hi, lim)
        IN /\ inp' \in {inp \cup need \cup x : x \in over(need)}
           /\ req' = req \cup need
           /\ UNCHANGED <<mode, bk, out, pool, un, uout>>
           /\ Log(ev("ok", Items(Take(full, lim)), ScanDev(bk, mode, inp, out, b, lo, hi, lim), need))

(* utxo_sandbox.go Transfer: whole utxos are selected until the amount is covered, the rest is change *)
Transfer(amt) ==
  /\ Running /\ amt \in 0..(UAmt + 1)
  /\ LET need == (amt + UAmt - 1) \div UAmt
         ev(r) == [op |-> "transfer", amt |-> amt, res |-> r, items |-> NoItems, dv |-> NoDev]
     IN IF amt = 0 \/ un + need > pool
        THEN UNCHANGED <<mode, bk, inp, out, req, pool, un, uout>> /\ Log(ev("err"))
        ELSE /\ un' = un + need
             /\ uout' = uout \o <<[to |-> "x", amt |-> amt]>> \o
                        (IF need * UAmt > amt THEN <<[to |-> "a", amt |-> need * UAmt - amt]>> ELSE <<>>)
             /\ UNCHANGED <<mode, bk, inp, out, req, pool>>
             /\ Log(ev("ok"))

(* ------------------------------------------------------------------ programs ------- *)
ProperRanges(b) == {<<lo, hi>> \in (1..NamesOf(b)) \X (2..(NamesOf(b) + 1)) : lo < hi}
EdgeRanges(b)   == IF b = 1 THEN {<<0, 0>>, <<0, N1 + 1>>, <<1, 0>>, <<2, 0>>, <<2, 2>>, <<2, 1>>, <<N1, 1>>} ELSE {}
Ranges(b) == ProperRanges(b) \cup (IF EdgeBounds THEN EdgeRanges(b) ELSE {})

Step ==
  \/ \E k \in Keys : Get(k) \/ Del(k) \/ \E v \in Vals : Put(k, v)
  \/ \E b \in {TB, 1, 2} : \E r \in Ranges(b) : \E lim \in Limits : Select(b, r[1], r[2], lim, LAMBDA nd : {{}})
  \/ NU > 0 /\ \E amt \in 1..(UAmt + 1) : Transfer(amt)     \* a zero amount is refused by the code; no property speaks about it
Next == (mode = "idle" /\ \E f \in XmStates : Start(f, NU)) \/ Step
Spec == Init /\ [][Next]_vars

(* ------------------------------------------------------------------ observables ---- *)
WSetSeq(o) == LET s == SortKeys({k \in Keys : o[k] # NoWrite}) IN [j \in 1..Len(s) |-> [b |-> s[j][1], n |-> s[j][2], v |-> o[s[j]]]]
KeySeq(S) == LET s == SortKeys(S) IN [j \in 1..Len(s) |-> [b |-> s[j][1], n |-> s[j][2]]]
Obs == [req |-> KeySeq(req), wset |-> WSetSeq(out)]

(* A recorded read set rs (sequence of [b, n, ver, v]; ver: 0 = empty version and the backing state  *)
(* has never seen the key, 1 = the key's current version in the backing state, anything else = some *)
(* other version) is sound for this execution:                                                      *)
(* distinct keys, each with the version and value the backing state holds, covering req.  It is a  *)
(* constraint, not a pin: further keys (look-ahead) are allowed.                                    *)
RSetOkX(bx, rq, o, m, rs) ==
  /\ \A i \in 1..Len(rs) :
        IF <<rs[i].b, rs[i].n>> \in Keys
        THEN LET st == bx[<<rs[i].b, rs[i].n>>] IN
             /\ st # "nf"
             /\ rs[i].ver = (IF st \in {"live", "del"} THEN 1 ELSE 0)
             /\ rs[i].v = EntryVal(st)
        ELSE \* an over-read outside the program's key universe (b = 9, n = -1, -2, ..): the version the backing state holds
             rs[i].b = 9 /\ rs[i].ver \in {0, 1}
  /\ \A i, j \in 1..Len(rs) : (rs[i].b = rs[j].b /\ rs[i].n = rs[j].n) => i = j
  /\ \A k \in rq : \E i \in 1..Len(rs) : rs[i].b = k[1] /\ rs[i].n = k[2]
  \* the written keys outside the transient bucket are read keys (follows from req; stated for the record)
  /\ m = "xm" => \A k \in Keys : (k[1] # TB /\ o[k] # NoWrite) => \E i \in 1..Len(rs) : rs[i].b = k[1] /\ rs[i].n = k[2]
RSetOk(rs) == RSetOkX(bk, req, out, mode, rs)

(* ------------------------------------------------------------------ invariants ----- *)
TypeOK ==
  /\ mode \in {"idle", "xm", "rs"}
  /\ bk \in [Keys -> {"never", "live", "del", "emp", "nf"}]
  /\ inp \subseteq Keys /\ req \subseteq Keys
  /\ out \in [Keys -> Vals \cup {NoWrite, DelMark}]
  /\ pool \in 0..NU /\ un \in 0..pool
(* the modelled cache discipline yields a sound read set: demanded keys and written keys are cached *)
ReadSetSound ==
  /\ req \subseteq inp
  /\ mode = "xm" => \A k \in Keys : (k[1] # TB /\ out[k] # NoWrite) => k \in inp
  /\ \A k \in inp : bk[k] # "nf"
(* action properties, checked on every transition: the mechanism's answers are the semantic ones *)
LastEv == hist'[Len(hist')]
ScanReadsWhatItSaw == [][(Len(hist') > 0 /\ LastEv.op = "select" /\ LastEv.res = "ok") => LastEv.need \subseteq inp']_vars
ReadYourWrites ==
  [][(Len(hist') > 0 /\ LastEv.op = "get") =>
       LastEv.res = (LET k == <<LastEv.b, LastEv.n>> IN
                   IF out[k] = DelMark THEN Absent ELSE IF out[k] # NoWrite THEN out[k]
                   ELSE IF bk[k] = "live" THEN OldVal ELSE Absent)]_vars
ScanExact ==
  [][(Len(hist') > 0 /\ LastEv.op = "select" /\ LastEv.res = "ok") =>
       /\ LastEv.items = Items(Take(SemFull(bk, out, LastEv.b, LastEv.lo, LastEv.hi), LastEv.lim))
       /\ \A j \in 1..Len(LastEv.items) : LastEv.items[j].v \notin {DelMark, ""}
       /\ \A j \in 1..(Len(LastEv.items) - 1) : LastEv.items[j].n < LastEv.items[j + 1].n]_vars
ScanRefusesInverted ==
  [][(Len(hist') > 0 /\ LastEv.op = "select" /\ LastEv.hi # 0 /\ LastEv.lo > LastEv.hi) => LastEv.res = "err"]_vars
UtxoBalanced ==       \* what the transfers consumed is what they paid out
  LET RECURSIVE Sum(_)
      Sum(s) == IF s = <<>> THEN 0 ELSE s[1].amt + Sum(Tail(s))
  IN Sum(uout) = un * UAmt
=============================================================================
