SPECIFICATION GSpec
CONSTANTS
  MaxBlocks = 14
  MaxTxPerBlock = 1
  MaxOps = 40
  Window = 0
  BlockBudget = 1000
  ActiveTxs = {"t1", "t2", "t3", "t4", "t5", "t6", "t7", "t8", "p1", "p2", "p3", "p4", "p5", "p6", "p7", "p8", "p9", "p10", "w1"}
  KF_FrozenLedgerHeight = FALSE
  KF_PlayKeepsStaleReader = FALSE
  KF_PoolOrderAntiDep = FALSE
  KF_PoolMasksBlockOrder = FALSE
CONSTRAINT Dump
CHECK_DEADLOCK FALSE
