---------------------------- MODULE Gen_SpinLock ----------------------------
(* Schedule generation for C12.  A behaviour = scenario + schedule (the step history) + what the step model     *)
(* predicts for it (result classes, final observables).  Two modes:                                            *)
(*  - breadth-first with the history in the state (no VIEW): EVERY complete schedule of the configured        *)
(*    scenarios, up to commutation of adjacent independent steps when POR = TRUE (only schedules in normal    *)
(*    form are extended: a step of a lower-numbered process never directly follows an independent step of a   *)
(*    higher-numbered one; every Mazurkiewicz trace keeps its lexicographically least member);                 *)
(*  - -simulate: random complete schedules.                                                                    *)
(* A selection has no yield point in the real code: once started it runs to its end (contiguous steps).       *)
EXTENDS SpinLock, Json
CONSTANTS POR
VARIABLE last
ASSUME JsonSerialize("catalog.json", <<[tx |-> TX, genesis |-> GenesisOuts, award |-> Award, keys |-> KeySeq, addrs |-> Addrs,
                                        req |-> ReqDef, fam |-> Fam, lk |-> LK, kvnames |-> SetToSeq(KvNames),
                                        mixnames |-> SetToSeq(MixNames), txrank |-> TxRank,
                                        kvpool |-> KvPoolFull, tokpool |-> TokPoolFull, mixpool |-> MixPoolFull]>>)
gvars == <<vars, last>>
Beh == [sc |-> sc, sched |-> hist,
        pred |-> [res |-> [p \in Procs |-> res[p].c], obs |-> ObsOfDb(db)]]
DumpAll == ~AllDone \/ (TLCSet(7, TLCGet(7) + 1) /\ JsonSerialize("out/b_" \o ToString(TLCGet(7)) \o ".json", <<Beh>>) /\ FALSE)
DumpSim == ~AllDone \/ (JsonSerialize("out/b_" \o ToString(TLCGet("stats").traces) \o ".json", <<Beh>>) /\ FALSE)
Scanning == {p \in Procs : pc[p] \in {"sel_scan", "sel_unlock"}}
GMovers == IF Granted # {} THEN Granted ELSE IF Scanning # {} THEN Scanning ELSE Procs
NormalOK(p) == \/ ~POR \/ Granted # {} \/ Scanning # {} \/ last.p = 0
               \/ ~(p < last.p /\ ~Dependent(Foot(p), last.f))
GenInit == Init /\ last = [p |-> 0, f |-> NoFoot] /\ TLCSet(7, 0)
GenNext == \E p \in GMovers : /\ NormalOK(p) /\ Step(p)
                              /\ Log(p)
                              /\ last' = [p |-> p, f |-> Foot(p)]
GenSpec == GenInit /\ [][GenNext]_gvars
=============================================================================
