SPECIFICATION DispSpec
CONSTANTS
  NP = 2
  MaxCalls = 1
  NFull = 4
  MaxOps = 100000
  LogOn = FALSE
  U = "mc2"
  KF_DispatchReadsTableUnlocked = TRUE
  KF_EmptyPayloadUndecodable = FALSE
  KF_KeyConcatAmbiguous = FALSE
INVARIANTS TypeOK MutualExclusion NoTableAccessWithoutLock ExactDelivery RepeatDropped
VIEW View
