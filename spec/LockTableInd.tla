---------------------------- MODULE LockTableInd ----------------------------
(***************************************************************************)
(* C12: the lock table of LockTable.tla restated over sets (a client holds *)
(* a set of [k, m] lock keys instead of a sequence), typed for Apalache.   *)
(* IndInv is inductive: Init => IndInv and IndInv /\ Next => IndInv' are   *)
(* discharged by apalache-mc (--length=0 / --length=1 from IndInit), i.e.  *)
(* Exclusive and IdleHoldNothing hold in EVERY reachable state, for        *)
(* behaviours of any length (3 clients, 3 keys), not only within MaxOps.   *)
(* TryLock takes the keys of a request in key order while each can be      *)
(* taken and hands back a prefix on failure, exactly as LockTable.TryLock. *)
(***************************************************************************)
EXTENDS Integers, FiniteSets

\* @type: Set(Int);
Clients == {1, 2, 3}
\* keys are 1..3 in lock order
\* @type: Set(Int);
KeySet == {1, 2, 3}

VARIABLES
  \* @type: Int -> Set({k: Int, m: Str});
  held,
  \* @type: Set(Int);
  busy

\* @type: (Int, Str) => Set(Int);
Holders(k, m) == {c \in Clients : [k |-> k, m |-> m] \in held[c]}
\* @type: (Int) => Str;
Mode(k) == IF Holders(k, "X") # {} THEN "X" ELSE IF Holders(k, "S") # {} THEN "S" ELSE "none"
\* @type: (Int, Str) => Bool;
CanLock(k, m) == Mode(k) = "none" \/ (Mode(k) = "S" /\ m = "S")

Init == held = [c \in Clients |-> {}] /\ busy = {}

\* rd / wr: the keys read / written; taken: how many leading keys (in key order) are taken = all below the first refusal
\* @type: (Int, Set(Int), Set(Int)) => Bool;
TryLock(c, rd, wr) ==
  /\ c \notin busy
  /\ rd \cap wr = {} /\ rd \cup wr # {}
  /\ LET ks == rd \cup wr
         mode(k) == IF k \in wr THEN "X" ELSE "S"
         bad == {k \in ks : ~CanLock(k, mode(k))}
         taken == {k \in ks : \A b \in bad : k < b} IN
     /\ held' = [held EXCEPT ![c] = {[k |-> k, m |-> mode(k)] : k \in taken}]
     /\ busy' = busy \cup {c}
Unlock(c) ==
  /\ c \in busy
  /\ held' = [held EXCEPT ![c] = {}]
  /\ busy' = busy \ {c}

Next == \/ \E c \in Clients, rd \in SUBSET KeySet, wr \in SUBSET KeySet : TryLock(c, rd, wr)
        \/ \E c \in Clients : Unlock(c)

TypeOK == /\ held \in [Clients -> SUBSET [k : KeySet, m : {"S", "X"}]]
          /\ busy \in SUBSET Clients
Exclusive == \A k \in KeySet : /\ \A c, d \in Holders(k, "X") : c = d
                              /\ (Holders(k, "X") # {} => Holders(k, "S") = {})
IdleHoldNothing == \A c \in Clients \ busy : held[c] = {}
\* a client holds a key in one mode only
OneMode == \A c \in Clients, k \in KeySet : ~([k |-> k, m |-> "S"] \in held[c] /\ [k |-> k, m |-> "X"] \in held[c])
IndInv == TypeOK /\ Exclusive /\ IdleHoldNothing /\ OneMode
IndInit == IndInv
=============================================================================
