---------------------------- MODULE Gen_BlockId ----------------------------
(* Case enumeration: every profile of BlockId (tx list x header variant) with every single        *)
(* mutation and every repair strategy is written as one behaviour  <<format(p), mut(m, st)*>>     *)
(* (the driver verifies after each op).  b_0 carries the field table for the driver's reflection  *)
(* walk over the protobuf schema and the values the "jadd" / "jsadd" mutations insert.  Run with -simulate num=1: the single step writes all files.    *)
EXTENDS BlockId, Json
ProfSeq == SetToSeq(Profiles)
Cases(p) == LET b == FormatBlock(p) IN SetToSeq({[op |-> "mut", m |-> m, st |-> st] : m \in Muts(b), st \in Strategies})
Beh(p) == <<[op |-> "format", p |-> p]>> \o Cases(p)
DumpAll == /\ JsonSerialize("out/b_0.json", <<[op |-> "schema", fields |-> FieldTable, jvar |-> <<J1[1], J2[1]>>, svar |-> <<SEmpty, SOne>>]>>)
           /\ \A i \in 1..Len(ProfSeq) : JsonSerialize("out/b_" \o ToString(i) \o ".json", Beh(ProfSeq[i]))
GNext == phase = "init" /\ DumpAll /\ phase' = "dumped" /\ UNCHANGED <<orig, blk, mut, verdict, hist>>
GSpec == Init /\ [][GNext]_vars
=============================================================================
