\* one scenario only: used to export the catalogue (catalog.json is written when the module is loaded)
SPECIFICATION GenSpec
CONSTANTS
  KF_SharedLockRefCountRace = TRUE
  Sizes = {}
  KvPool <- KvPoolFull
  TokPool <- TokPoolFull
  MixPool <- MixPoolFull
  Extra <- Race3
  GFirst = TRUE
  SelDet = TRUE
  RecSteps = FALSE
  LogOn = TRUE
  POR = TRUE
CONSTRAINT DumpAll
CHECK_DEADLOCK FALSE
