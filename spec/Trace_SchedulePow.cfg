SPECIFICATION TSpec
CONSTANTS
  Modes = {"compact"}
  Gaps = {2}
  ExtraLen = 100
  Seed = 1
  NRand = 0
  KeepHist = FALSE
  KF_PowGrandparentBits = FALSE
  Sides = {}
CONSTRAINT Book
POSTCONDITION Post
CHECK_DEADLOCK FALSE
