------------------------------ MODULE Gen_QCSmr ------------------------------
(* Behaviour generation for the Smr level: simulate QCSmr, parameters drawn by RandomElement. *)
EXTENDS QCSmr, Json
Pick(i) == LET r == RandomElement(0..(3 * i - 1)) IN IF r >= i THEN i - 1 ELSE r     \* mostly chains: commits need depth 4
GenInit == /\ InitWith([i \in 1..NP |-> Pick(i)])
           /\ lp = {0} /\ ledger = 0 /\ lastVote = 0 /\ pref = 0 /\ votes = [p \in 1..NP |-> {}]
AnyP == RandomElement(Props)
Or(S) == IF S = {} THEN AnyP ELSE RandomElement(S)
Frontier == {p \in Props : p \notin main /\ Par(p) \in main}       \* proposals whose parent is in the tree
Votable == lp \cap main \cap Props
GenNext ==
  /\ Len(hist) < MaxOps
  /\ \/ \E b \in 1..2 : Confirm(AnyP)
     \/ Confirm(Or(Frontier))
     \/ \E b \in 1..2 : Propose(AnyP, RandomElement(BOOLEAN))
     \/ \E b \in 1..3 : Propose(Or(Frontier), RandomElement(BOOLEAN))
     \/ Vote(AnyP, RandomElement(Voters))
     \/ \E b \in 1..4 : Vote(Or(Votable), RandomElement(Voters))
     \/ \E b \in 1..2 : Justify(Or(main \cap Props))
     \/ Justify(AnyP)
     \/ Rollback(RandomElement(Ids))
GenSpec == GenInit /\ [][GenNext]_svars
Dump == Len(hist) < MaxOps \/ (JsonSerialize("out/b_" \o ToString(TLCGet("stats").traces) \o ".json", hist) /\ FALSE)
=============================================================================
