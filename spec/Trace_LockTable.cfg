SPECIFICATION TSpec
CONSTANTS
  Clients = {1, 2, 3}
  MaxOps = 0
CONSTRAINT Book
POSTCONDITION Post
CHECK_DEADLOCK FALSE
