----------------------------- MODULE MC_Sandbox -----------------------------
(***************************************************************************)
(* Exhaustive check of Sandbox (IDEAL) including the replay clause of C10: *)
(* "re-running the same calls over the read set alone reproduces the same  *)
(* results and write set".                                                 *)
(*                                                                         *)
(* The replay runs in lock step with the first run.  Its backing state is  *)
(* the FINAL read set of the first run, which is only known at the end, so *)
(* it is guessed up front (prophecy variables rp = keys of the final read  *)
(* set, up = utxos finally consumed) and the clause is asserted in exactly *)
(* the states in which the guess has come true (inp = rp, un = up).  Every *)
(* prefix of a program is a program, so this covers every op sequence.     *)
(* The write set and the utxo outputs of the replay are functions of the   *)
(* calls and of the per-call results, so "same results" (flag same) gives  *)
(* "same write set".                                                       *)
(*                                                                         *)
(* The scan's look-ahead (peekIterator: up to two backing keys beyond the  *)
(* consumed ones are read) is covered by letting every scan read an        *)
(* arbitrary further set of backing-live keys of its range.                *)
(***************************************************************************)
EXTENDS Sandbox
CONSTANT LookAhead     \* 99 = any over-read, else the maximal look-ahead of a scan
VARIABLES rp, up, same
mcvars == <<vars, rp, up, same>>

(* the reader built from the read set rp: XMReaderFromRWSet *)
bk2 == [k \in Keys |-> IF k \in rp THEN (IF bk[k] \in {"live", "del"} THEN bk[k] ELSE "emp") ELSE "nf"]

(* what a scan may read beyond the keys it must read: LookAhead = "any": any further backing-live keys of  *)
(* the range; LookAhead = k: the next 0..k of them in key order (the code's peekIterators: at most two)  *)
OverReads(b, lo, hi, need) ==
  LET rest == {k \in Keys : InRange(k, b, lo, hi) /\ bk[k] = "live" /\ k \notin inp /\ k \notin need}
      rs   == SelectSeq([n \in 1..NamesOf(b) |-> <<b, n>>], LAMBDA k : k \in rest)
  IN IF LookAhead = 99 THEN SUBSET rest
     ELSE {{rs[j] : j \in 1..m} : m \in 0..Min2(LookAhead, Len(rs))}

MCInit == Init /\ rp \in SUBSET Keys /\ up \in 0..NU /\ same = TRUE

Keep == UNCHANGED <<rp, up>>
MCStep ==
  \/ mode = "idle" /\ \E f \in XmStates : Start(f, NU) /\ Keep /\ UNCHANGED same
  \/ \E k \in Keys : Get(k) /\ Keep /\ same' = (same /\ LastEv.res = SemVal(bk2, out, k))
  \/ \E k \in Keys : (Del(k) \/ \E v \in Vals : Put(k, v)) /\ Keep /\ UNCHANGED same
  \/ \E b \in {TB, 1, 2} : \E r \in Ranges(b) : \E lim \in Limits :
          /\ Select(b, r[1], r[2], lim, LAMBDA nd : OverReads(b, r[1], r[2], nd)) /\ Keep
          \* the replay's own input cache cannot matter: in "rs" mode every cached record is also in the reader
          /\ same' = (same /\ IF r[2] # 0 /\ r[1] > r[2] THEN LastEv.res = "err"
                               ELSE LastEv.res = "ok" /\ LastEv.items = Items(Take(Mech(bk2, "rs", {}, out, b, r[1], r[2]), lim)))
  \/ NU > 0 /\ \E amt \in 0..(UAmt + 1) :
       /\ Transfer(amt) /\ Keep
       \* sandbox/utxo.go UTXOReader: consumes the recorded inputs front to back (un is also the replay's position
       \* as long as the results agreed so far)
       /\ same' = (same /\ LastEv.res = (IF amt = 0 \/ un + ((amt + UAmt - 1) \div UAmt) > up THEN "err" ELSE "ok"))
MCSpec == MCInit /\ [][MCStep]_mcvars

(* the guess can still come true *)
Feasible == inp \subseteq rp /\ un <= up
(* C10 replay clause *)
ReplayReproduces == (inp = rp /\ un = up) => same

View == <<mode, bk, inp, out, pool, un, rp, up, same>>
=============================================================================
