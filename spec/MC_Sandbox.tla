----------------------------- MODULE MC_Sandbox -----------------------------
(***************************************************************************)
(* Exhaustive check of Sandbox (IDEAL) including the replay clause of C10: *)
(* "re-running the same calls over the read set alone reproduces the same  *)
(* results and write set".                                                 *)
(*                                                                         *)
(* The replay runs in lock step with the first run.  Its backing state is  *)
(* the FINAL read set of the first run, which is only known at the end, so *)
(* it is guessed up front (prophecy variables rp = keys of the final read  *)
(* set, up = the final recorded utxo inputs, a sequence of utxos) and the  *)
(* clause is asserted in exactly the states in which the guess has come    *)
(* true (inp = rp, uin = up).  Every prefix of a program is a program, so  *)
(* this covers every op sequence.  The write set of the replay is a        *)
(* function of the calls and of the per-call results; the utxo outputs     *)
(* (payment, change) are a function of the calls and of the inputs each    *)
(* transfer took; so "same results and same inputs taken by every          *)
(* transfer" (flag same) gives "same write set" (the utxo sets are written *)
(* into the transient bucket by Flush).                                    *)
(*                                                                         *)
(* Transfers: every sender (two that hold utxos of different amounts, one  *)
(* that holds nothing), every amount from zero to above what any sender    *)
(* holds, the node's reader handing out the sender's free utxos in ANY     *)
(* order (AnyOrderSel); failing transfers leave no trace and the execution *)
(* goes on.  The replay reader (RsSel over the prophesied final input list *)
(* up at cursor Len(uin)) must fail where the first run failed and take    *)
(* exactly the first run's inputs where it succeeded.                      *)
(*                                                                         *)
(* The scan's look-ahead (peekIterator: up to two backing keys beyond the  *)
(* consumed ones are read) is covered by letting every scan read an        *)
(* arbitrary further set of backing-live keys of its range.                *)
(***************************************************************************)
EXTENDS Sandbox
CONSTANT LookAhead     \* 99 = any over-read, else the maximal look-ahead of a scan
VARIABLES rp, up, same
mcvars == <<vars, rp, up, same>>

(* the reader built from the read set rp: XMReaderFromRWSet *)
bk2 == [k \in Keys |-> IF k \in rp THEN (IF bk[k] \in {"live", "del"} THEN bk[k] ELSE "emp") ELSE "nf"]

(* what a scan may read beyond the keys it must read: LookAhead = "any": any further backing-live keys of  *)
(* the range; LookAhead = k: the next 0..k of them in key order (the code's peekIterators: at most two)  *)
OverReads(b, lo, hi, need) ==
  LET rest == {k \in Keys : InRange(k, b, lo, hi) /\ bk[k] = "live" /\ k \notin inp /\ k \notin need}
      rs   == SelectSeq([n \in 1..NamesOf(b) |-> <<b, n>>], LAMBDA k : k \in rest)
  IN IF LookAhead = 99 THEN SUBSET rest
     ELSE {{rs[j] : j \in 1..m} : m \in 0..Min2(LookAhead, Len(rs))}

(* every sequence of distinct utxos of a pool *)
InjSeqs(S) == {s \in UNION {[1..n -> S] : n \in 0..Cardinality(S)} : Injective(s)}
UpGuesses == UNION {InjSeqs(SeqRange(AllU(p, "a")) \cup SeqRange(AllU(p, "b"))) : p \in Pools(NU)}
MCInit == Init /\ rp \in SUBSET Keys /\ up \in UpGuesses /\ same = TRUE

Keep == UNCHANGED <<rp, up>>
MCStep ==
  \/ mode = "idle" /\ \E f \in XmStates : \E p \in Pools(NU) : Start(f, p) /\ Keep /\ UNCHANGED same
  \/ \E k \in Keys : Get(k) /\ Keep /\ same' = (same /\ LastEv.res = SemVal(bk2, out, k))
  \/ \E k \in Keys : (Del(k) \/ \E v \in Vals : Put(k, v)) /\ Keep /\ UNCHANGED same
  \/ \E b \in {TB, 1, 2} : \E r \in Ranges(b) : \E lim \in Limits :
          /\ Select(b, r[1], r[2], lim, LAMBDA nd : OverReads(b, r[1], r[2], nd)) /\ Keep
          \* the replay's own input cache cannot matter: in "rs" mode every cached record is also in the reader
          /\ same' = (same /\ IF r[2] # 0 /\ r[1] > r[2] THEN LastEv.res = "err"
                               ELSE LastEv.res = "ok" /\ LastEv.items = Items(Take(Mech(bk2, "rs", {}, out, b, r[1], r[2]), lim)))
  \/ NU > 0 /\ \E f \in Froms : \E to \in Tos : \E amt \in 0..MaxAmt(NU) :
       /\ Transfer(f, to, amt, AnyOrderSel, FALSE) /\ Keep
       \* sandbox/utxo.go UTXOReader over the final input list: as long as the results agreed so far its cursor is
       \* Len(uin).  Same result, and the same inputs taken (hence the same payment and change outputs).
       /\ same' = (same /\ LET rsel == IF amt = 0 THEN <<>> ELSE RsSel(up, Len(uin), f, amt)
                             IN IF LastEv.res = "err" THEN rsel = <<>>
                                ELSE rsel = LastEv.sel /\ Outs(f, to, amt, rsel) = LastEv.outs)
MCSpec == MCInit /\ [][MCStep]_mcvars

(* the guess can still come true *)
Feasible == inp \subseteq rp /\ Len(uin) <= Len(up) /\ uin = SubSeq(up, 1, Len(uin))
(* C10 replay clause *)
ReplayReproduces == (inp = rp /\ uin = up) => same

View == <<mode, bk, inp, out, pool, uin, uout, rp, up, same>>
=============================================================================
