SPECIFICATION TSpec
CONSTANTS
  Kinds = {"single"}
  Periods = {1}
  BlockNums = {1}
  ProposerNums = {1}
  MaxAlt = 1
  MaxTermInt = 1
  XpoaNs = {1}
  InitMs = 0
  InitRems = {0}
  NTerms = 1
  ChainPeriods = {}
  ChainTermInts = {}
  Starts = {}
  NodeAts = {}
  KeepHist = FALSE
  KF_TdposPreInit = FALSE
  KF_XpoaNegativeTs = FALSE
  KF_TdposTermSetOffset = FALSE
CONSTRAINT Book
POSTCONDITION Post
CHECK_DEADLOCK FALSE
