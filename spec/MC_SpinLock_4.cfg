\* IDEAL lock protocol, all scenarios of 4 requests over the reduced request pools.
SPECIFICATION Spec
CONSTANTS
  KF_SharedLockRefCountRace = FALSE
  Sizes = {4}
  KvPool <- KvPoolSmall
  TokPool <- TokPoolSmall
  Extra <- NoExtra
  GFirst = TRUE
  SelDet = FALSE
  LogOn = TRUE
VIEW View
INVARIANT TypeOK
INVARIANT Exclusion
INVARIANT ConflictFree
INVARIANT SelectorsDisjoint
INVARIANT SelHeld
INVARIANT Serialisable
INVARIANT Quiescent
CHECK_DEADLOCK TRUE
