\* IDEAL lock protocol, all scenarios of 4 requests over the reduced request pools (submissions, selections, play; the
\* scenarios of 4 requests with a walk are the hand-picked ones of MC_SpinLock_thorough.cfg).
SPECIFICATION Spec
CONSTANTS
  KF_SharedLockRefCountRace = FALSE
  Sizes = {4}
  KvPool <- KvPool4
  TokPool <- TokPool4
  MixPool <- MixPool4
  Extra <- NoExtra
  GFirst = TRUE
  SelDet = FALSE
  RecSteps = TRUE
  LogOn = TRUE
VIEW View
INVARIANT TypeOK
INVARIANT Exclusion
INVARIANT ConflictFree
INVARIANT SelectorsDisjoint
INVARIANT SelHeld
INVARIANT Serialisable
INVARIANT Quiescent
INVARIANT TableMatchesHeld
CHECK_DEADLOCK TRUE
