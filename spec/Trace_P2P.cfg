SPECIFICATION TSpec
CONSTANTS
  NP = 4
  MaxCalls = 1000000
  NFull = 4
  MaxOps = 100000
  LogOn = FALSE
  U = "trace"
  KF_DispatchReadsTableUnlocked = FALSE
  KF_EmptyPayloadUndecodable = FALSE
  KF_KeyConcatAmbiguous = FALSE
CONSTRAINT Book
POSTCONDITION Post
CHECK_DEADLOCK FALSE
