------------------------------- MODULE TxAuth -------------------------------
(***************************************************************************)
(* C07 - transaction integrity and authorisation: nothing is spent or      *)
(* invoked unsigned.                                                       *)
(*                                                                         *)
(* (a) Decision procedure.  VerifyCode transcribes State.VerifyTx /        *)
(*     ImmediateVerifyTx step by step (txid, verifySignatures,             *)
(*     verifyXuperSign, verifyUTXOPermission, verifyTxRWSets, verifyMarked) *)
(*     on an abstract transaction; Authorised is the independent semantic  *)
(*     definition of the property statement (set based: who carries a      *)
(*     valid signature over THIS digest).  Invariant: accepted =>          *)
(*     Authorised; honest transactions of every form are accepted.         *)
(* (b) Digest coverage.  FieldTable lists every field of the Transaction   *)
(*     schema with the class the property demands; what the encoders       *)
(*     really bind is DERIVED from the encoder grammars of part (c).       *)
(*     Mutate(f) on an accepted transaction must give rejection for every  *)
(*     field of class digest / sig / id, for each version.                 *)
(* (c) Pre-image injectivity.  Each encoder (v3 length prefixed, v1/v2     *)
(*     JSON stream) is a grammar of typed tokens; TLC enumerates item       *)
(*     presence patterns per section and checks that different structures  *)
(*     never yield the same token sequence, inside a section and across     *)
(*     section boundaries.                                                 *)
(*                                                                         *)
(* IDEAL = all KF_* FALSE (property invariants hold).  ACTUAL(KF) = IDEAL  *)
(* plus the named deviations (what the code does instead).                 *)
(***************************************************************************)
EXTENDS Integers, Sequences, FiniteSets, TLC, SequencesExt, FiniteSetsExt

CONSTANTS MaxDev,      \* signature-status vectors with at most MaxDev non-valid slots
          FullOwners,  \* TRUE: every status vector x every owner configuration
          KF_XuperSignSingleKey,    \* verifyXuperSign accepts a signature that proves one key only
          KF_MarkedRefSoftAccept,   \* State.VerifyTx answers (false, nil) for a failing tx that refers to a marked tx
          KF_GhostAccountInitiator, \* an initiator of account form without rule on the chain is satisfied by anybody
          KF_V1OmitsHDInfo,         \* the version-1 pre-image does not contain HD_info
          KF_V12OmitsEmpty,         \* the version-1/2 pre-image omits empty fields and has no counts
          KF_MarkedFlagUncovered    \* modify_block.marked changes processing but is in no pre-image

VARIABLES phase,    \* "init" -> "built" -> "verified" -> "mutated" -> "done"
          tx,       \* abstract transaction under verification
          orig,     \* the transaction as built (base of a mutation)
          mut,      \* mutation applied or NoMut
          verdict,  \* "ok" | "rej" | "soft" | "-"
          hist
vars == <<phase, tx, orig, mut, verdict, hist>>

K0 == [xs |-> FALSE, mref |-> FALSE, ghost |-> FALSE, v1hd |-> FALSE, omit |-> FALSE, mflag |-> FALSE]
KC == [xs |-> KF_XuperSignSingleKey, mref |-> KF_MarkedRefSoftAccept, ghost |-> KF_GhostAccountInitiator,
       v1hd |-> KF_V1OmitsHDInfo, omit |-> KF_V12OmitsEmpty, mflag |-> KF_MarkedFlagUncovered]
KA == [xs |-> TRUE, mref |-> TRUE, ghost |-> TRUE, v1hd |-> TRUE, omit |-> TRUE, mflag |-> TRUE]
KFName == [xs |-> "KF_XuperSignSingleKey", mref |-> "KF_MarkedRefSoftAccept", ghost |-> "KF_GhostAccountInitiator",
           v1hd |-> "KF_V1OmitsHDInfo", omit |-> "KF_V12OmitsEmpty", mflag |-> "KF_MarkedFlagUncovered"]
Only(g) == [K0 EXCEPT ![g] = TRUE]

-----------------------------------------------------------------------------
(* Names.  Keys k1 k2 k3 (parties), kx (outsider).  Accounts A (rule: k2 and k3), B (rule: k2 and kx), *)
(* G (account form, never created: no rule).  C: the address of the paying contract.                  *)
Keys  == {"k1", "k2", "k3", "kx"}
Accts == {"A", "B", "G"}
IsKey(n)  == n \in Keys
IsAcct(n) == n \in Accts
HasRule(a) == a \in {"A", "B"}
Weight(a, k) == IF a = "A" /\ k \in {"k2", "k3"} THEN 1 ELSE IF a = "B" /\ k \in {"k2", "kx"} THEN 1 ELSE 0
Accept(a) == 2
SumW(a, S) == FoldSet(LAMBDA k, acc : acc + Weight(a, k), 0, S)
Rng(s) == {s[i] : i \in DOMAIN s}
LastOf(u) == u[Len(u)]
Count(s, x) == Cardinality({i \in DOMAIN s : s[i] = x})
BagEq(s, t) == Len(s) = Len(t) /\ \A x \in Rng(s) \cup Rng(t) : Count(s, x) = Count(t, x)

(* signature entry: pk = key whose public key it carries ("bad": unparsable), by = key that made the  *)
(* bytes ("junk": corrupted), dg = digest signed ("this" / "other" transaction)                        *)
Sig(pk, by, dg) == [pk |-> pk, by |-> by, dg |-> dg]
V(k) == Sig(k, k, "this")
SelfValid(s) == s.pk \in Keys /\ s.by = s.pk /\ s.dg = "this"
SigOK(s, k) == s.pk = k /\ SelfValid(s)                \* utils.IdentifyAK(k, s, digest)
NoXS == [on |-> FALSE, pks |-> <<>>, kind |-> "none", by |-> <<>>, dg |-> "this"]
XS(pks, kind, by, dg) == [on |-> TRUE, pks |-> pks, kind |-> kind, by |-> by, dg |-> dg]
In(o) == [own |-> o, cj |-> FALSE, mk |-> FALSE]
InCJ(o) == [own |-> o, cj |-> TRUE, mk |-> FALSE]
InMK(o) == [own |-> o, cj |-> FALSE, mk |-> TRUE]
SingleKinds == {"ecdsa", "xecdsa", "schnorr"}

-----------------------------------------------------------------------------
(* utils.IdentifyAccount(account, uris) over the rules above: only URIs account/key count, every      *)
(* distinct key once (ptree.FindChild), final components were verified before.                        *)
MembersVia(a, uris) == {u[2] : u \in {w \in Rng(uris) : Len(w) = 2 /\ w[1] = a}}
IdAcct(K, a, uris) == IF ~HasRule(a) THEN TRUE      \* "empty ACL means everyone could pass"
                      ELSE SumW(a, MembersVia(a, uris)) >= Accept(a)

(* State.verifyXuperSign *)
Dedup(s) == FoldLeft(LAMBDA acc, x : IF x \in Rng(acc) THEN acc ELSE Append(acc, x), <<>>, s)
AddrList(t) == Dedup(<<t.init>> \o [i \in DOMAIN t.auth |-> LastOf(t.auth[i])])
XSigOK(K, xs) ==
  /\ xs.dg = "this" /\ xs.pks # <<>>
  /\ CASE xs.kind = "agg" -> Len(xs.pks) >= 2 /\ BagEq(xs.by, xs.pks)
       [] xs.kind \in SingleKinds -> xs.by # <<>> /\ xs.by[1] = xs.pks[1] /\ (K.xs \/ Len(xs.pks) = 1)
       [] xs.kind = "ring" -> K.xs /\ Len(xs.pks) >= 3 /\ xs.by # <<>> /\ xs.by[1] \in Rng(xs.pks)
       [] OTHER -> FALSE
XSign(K, t) ==
  LET al == AddrList(t) IN
  IF Len(al) = Len(t.xs.pks) /\ (\A i \in DOMAIN al : t.xs.pks[i] = al[i] /\ IsKey(al[i])) /\ XSigOK(K, t.xs)
  THEN [ok |-> TRUE, ver |-> Rng(al)] ELSE [ok |-> FALSE, ver |-> {}]

(* State.verifySignatures *)
VerifySigs(K, t) ==
  IF t.xs.on THEN XSign(K, t)
  ELSE IF Len(t.isigs) < 1 \/ Len(t.auth) # Len(t.asigs) THEN [ok |-> FALSE, ver |-> {}]
  ELSE LET ini == IF IsKey(t.init)
                  THEN [ok |-> SigOK(t.isigs[1], t.init), ver |-> {t.init}]
                  ELSE IF IsAcct(t.init)
                  THEN [ok |-> /\ \A i \in DOMAIN t.isigs : SelfValid(t.isigs[i])
                               /\ (IF HasRule(t.init) THEN IdAcct(K, t.init, [i \in DOMAIN t.isigs |-> <<t.init, t.isigs[i].pk>>])
                                   ELSE K.ghost),
                        ver |-> {t.isigs[i].pk : i \in DOMAIN t.isigs}]
                  ELSE [ok |-> FALSE, ver |-> {}]
       IN IF ~ini.ok THEN [ok |-> FALSE, ver |-> {}]
          ELSE FoldLeft(LAMBDA acc, i :
                 IF ~acc.ok THEN acc
                 ELSE LET a == LastOf(t.auth[i]) IN
                      IF a \in acc.ver THEN acc
                      ELSE IF SigOK(t.asigs[i], a) THEN [ok |-> TRUE, ver |-> acc.ver \cup {a}]
                      ELSE [ok |-> FALSE, ver |-> {}],
                 ini, [i \in DOMAIN t.auth |-> i])

(* State.verifyUTXOPermission *)
VerifyUtxo(K, t, ver0) ==
  FoldLeft(LAMBDA acc, i :
      IF ~acc.ok THEN acc
      ELSE LET o == t.ins[i].own IN
           IF t.ins[i].cj \/ o \in acc.ver THEN acc
           ELSE IF IsAcct(o) /\ HasRule(o) /\ IdAcct(K, o, t.auth) THEN [ok |-> TRUE, ver |-> acc.ver \cup {o}]
           ELSE [ok |-> FALSE, ver |-> acc.ver],
    [ok |-> TRUE, ver |-> ver0], [i \in DOMAIN t.ins |-> i])

(* State.verifyTxRWSets, as far as the utxo side is concerned: the transient entry ContractUtxo.Inputs  *)
(* (the inputs with cj) must be exactly what re-executing the carried requests selects.                 *)
CJOwners(t) == SelectSeq([i \in DOMAIN t.ins |-> IF t.ins[i].cj THEN t.ins[i].own ELSE "-"], LAMBDA x : x # "-")
Reproduced(t) == IF t.ctr = "pay" THEN CJOwners(t) = <<"C">> ELSE CJOwners(t) = <<>>

Immediate(K, t) ==
  /\ t.ver \in 1..3
  /\ t.id = "ok"
  /\ LET s == VerifySigs(K, t) IN s.ok /\ VerifyUtxo(K, t, s.ver).ok
  /\ Reproduced(t)
RefMarked(t) == \E i \in DOMAIN t.ins : t.ins[i].mk
(* State.VerifyTx: a failing transaction that refers to a marked transaction gets (false, nil) *)
VerifyCode(K, t) == IF Immediate(K, t) THEN "ok" ELSE IF K.mref /\ RefMarked(t) THEN "soft" ELSE "rej"

-----------------------------------------------------------------------------
(* The semantic definition (property statement). *)
ValidSigners(t) ==
  {s.pk : s \in {x \in Rng(t.isigs) \cup Rng(t.asigs) : SelfValid(x)}}
  \cup (IF t.xs.on /\ t.xs.dg = "this"
        THEN (IF t.xs.kind = "agg" /\ BagEq(t.xs.by, t.xs.pks) /\ t.xs.pks # <<>> THEN Rng(t.xs.pks)
              ELSE IF t.xs.kind \in SingleKinds \cup {"ring"} /\ t.xs.by # <<>> /\ t.xs.by[1] \in Rng(t.xs.pks) THEN {t.xs.by[1]}
              ELSE {})
        ELSE {})
Listed(t) == ({t.init} \cap Keys) \cup {LastOf(t.auth[i]) : i \in DOMAIN t.auth}
RuleMet(a, S) == HasRule(a) /\ SumW(a, S) >= Accept(a)
Authorised(t) ==
  LET vs == ValidSigners(t) IN
  /\ t.ver \in 1..3
  /\ t.id = "ok"                                            \* id = hash of the content
  /\ IF IsKey(t.init) THEN t.init \in vs                    \* the initiator signed ...
     ELSE IsAcct(t.init) /\ RuleMet(t.init, vs)             \* ... or its account's rule is met by valid signers
  /\ \A i \in DOMAIN t.auth : LastOf(t.auth[i]) \in vs      \* every listed signer signed
  /\ \A i \in DOMAIN t.ins :                                \* every spent output's owner is among them ...
       LET o == t.ins[i].own IN
       \/ o \in vs \cap (Listed(t) \cup {t.isigs[j].pk : j \in DOMAIN t.isigs})
       \/ IsAcct(o) /\ RuleMet(o, vs)                       \* ... or through its account's rule
       \/ t.ins[i].cj /\ o = "C" /\ t.ctr = "pay" /\ Reproduced(t)   \* ... or the carried contract code performs the spend
