------------------------------- MODULE TxAuth -------------------------------
(***************************************************************************)
(* C07 - transaction integrity and authorisation: nothing is spent or      *)
(* invoked unsigned.                                                       *)
(*                                                                         *)
(* (a) Decision procedure.  VerifyCode transcribes State.VerifyTx /        *)
(*     ImmediateVerifyTx step by step (txid, verifySignatures,             *)
(*     verifyXuperSign, verifyUTXOPermission, verifyTxRWSets, verifyMarked) *)
(*     on an abstract transaction; Authorised is the independent semantic  *)
(*     definition of the property statement (set based: who carries a      *)
(*     valid signature over THIS digest).  Invariant: accepted =>          *)
(*     Authorised; honest transactions of every form are accepted.         *)
(* (b) Digest coverage.  FieldTable lists every field of the Transaction   *)
(*     schema with the class the property demands; what the encoders       *)
(*     really bind is DERIVED from the encoder grammars of part (c).       *)
(*     Mutate(f) on an accepted transaction must give rejection for every  *)
(*     field of class digest / sig / id, for each version.                 *)
(* (c) Pre-image injectivity.  Each encoder (v3 length prefixed, v1/v2     *)
(*     JSON stream) is a grammar of typed tokens; TLC enumerates item       *)
(*     presence patterns per section and checks that different structures  *)
(*     never yield the same token sequence, inside a section and across     *)
(*     section boundaries.                                                 *)
(*                                                                         *)
(* IDEAL = all KF_* FALSE (property invariants hold).  ACTUAL(KF) = IDEAL  *)
(* plus the named deviations (what the code does instead).                 *)
(***************************************************************************)
EXTENDS Integers, Sequences, FiniteSets, TLC, SequencesExt, FiniteSetsExt

CONSTANTS MaxDev,      \* signature-status vectors with at most MaxDev non-valid slots
          FullOwners,  \* TRUE: every status vector x every owner configuration
          KF_XuperSignSingleKey,    \* verifyXuperSign accepts a signature that proves one key only
          KF_MarkedRefSoftAccept,   \* State.VerifyTx answers (false, nil) for a failing tx that refers to a marked tx
          KF_GhostAccountInitiator, \* an initiator of account form without rule on the chain is satisfied by anybody
          KF_V1OmitsHDInfo,         \* the version-1 pre-image does not contain HD_info
          KF_V12OmitsEmpty,         \* the version-1/2 pre-image omits empty fields and has no counts
          KF_MarkedFlagUncovered,   \* modify_block.marked changes processing but is in no pre-image
          KF_CoinbaseRider,         \* a block's coinbase transaction is never verified but its read / write set is applied
          KF_PlayPooledIdUnchecked  \* PlayAndRepost neither verifies nor applies a block entry that claims the id of a pooled transaction

VARIABLES phase,    \* "init" -> "built" -> "verified" -> "mutated" -> "done"; "verified" / "done" -> "blocked"
          tx,       \* abstract transaction under verification
          orig,     \* the transaction as built (base of a mutation)
          mut,      \* mutation applied or NoMut
          verdict,  \* "ok" | "rej" | "soft" | "-"
          subm,     \* answer of the engine entry Chain.SubmitTx: "ok" | "rej" | "-"
          blk,      \* the transaction arrived inside a peer block: plan and outcome, or NoBlk
          hist
vars == <<phase, tx, orig, mut, verdict, subm, blk, hist>>

K0 == [xs |-> FALSE, mref |-> FALSE, ghost |-> FALSE, v1hd |-> FALSE, omit |-> FALSE, mflag |-> FALSE, cb |-> FALSE, ppool |-> FALSE]
KC == [xs |-> KF_XuperSignSingleKey, mref |-> KF_MarkedRefSoftAccept, ghost |-> KF_GhostAccountInitiator,
       v1hd |-> KF_V1OmitsHDInfo, omit |-> KF_V12OmitsEmpty, mflag |-> KF_MarkedFlagUncovered, cb |-> KF_CoinbaseRider,
       ppool |-> KF_PlayPooledIdUnchecked]
KA == [xs |-> TRUE, mref |-> TRUE, ghost |-> TRUE, v1hd |-> TRUE, omit |-> TRUE, mflag |-> TRUE, cb |-> TRUE, ppool |-> TRUE]
KFName == [xs |-> "KF_XuperSignSingleKey", mref |-> "KF_MarkedRefSoftAccept", ghost |-> "KF_GhostAccountInitiator",
           v1hd |-> "KF_V1OmitsHDInfo", omit |-> "KF_V12OmitsEmpty", mflag |-> "KF_MarkedFlagUncovered", cb |-> "KF_CoinbaseRider",
           ppool |-> "KF_PlayPooledIdUnchecked"]
Only(g) == [K0 EXCEPT ![g] = TRUE]

-----------------------------------------------------------------------------
(* Names.  Keys k1 k2 k3 (parties), kx (outsider).  C: the address of the paying contract.  Accounts (created *)
(* on the fixture chain by $acl.NewAccount; the driver reads the rules back and the trace spec compares):  *)
(*   A  threshold 2: k2 1, k3 1           two distinct members needed                                      *)
(*   B  threshold 2: k2 1, kx 1           never met by the parties                                         *)
(*   T  threshold 2: k1 1, k2 1, k3 1     two of three                                                     *)
(*   L  threshold 3: k2 1, k3 1           all weights together stay below the threshold                    *)
(*   S  threshold 2: k2 2, k3 1           k2 alone suffices, k3 alone does not                             *)
(*   K  key sets {k1, k2} or {k3}                                                                          *)
(*   G  account form, never created: no rule                                                               *)
Keys  == {"k1", "k2", "k3", "kx"}
KeySeq == <<"k1", "k2", "k3", "kx">>
Accts == {"A", "B", "G", "T", "L", "S", "K"}
IsKey(n)  == n \in Keys
IsAcct(n) == n \in Accts
HasRule(a) == a \in Accts \ {"G"}
RuleKind(a) == IF a = "K" THEN "sets" ELSE "thr"
Weight(a, k) == CASE a = "A" -> (IF k \in {"k2", "k3"} THEN 1 ELSE 0)
                  [] a = "B" -> (IF k \in {"k2", "kx"} THEN 1 ELSE 0)
                  [] a = "T" -> (IF k \in {"k1", "k2", "k3"} THEN 1 ELSE 0)
                  [] a = "L" -> (IF k \in {"k2", "k3"} THEN 1 ELSE 0)
                  [] a = "S" -> (IF k = "k2" THEN 2 ELSE IF k = "k3" THEN 1 ELSE 0)
                  [] OTHER -> 0
Accept(a) == IF a = "L" THEN 3 ELSE 2
KeySets(a) == IF a = "K" THEN {{"k1", "k2"}, {"k3"}} ELSE {}
SumW(a, S) == FoldSet(LAMBDA k, acc : acc + Weight(a, k), 0, S)
Rng(s) == {s[i] : i \in DOMAIN s}
Idx(n) == IF n = 0 THEN <<>> ELSE [i \in 1..n |-> i]
LastOf(u) == u[Len(u)]
Count(s, x) == Cardinality({i \in DOMAIN s : s[i] = x})
BagEq(s, t) == Len(s) = Len(t) /\ \A x \in Rng(s) \cup Rng(t) : Count(s, x) = Count(t, x)

(* signature entry: pk = key whose public key it carries ("bad": unparsable), by = key that made the  *)
(* bytes ("junk": corrupted), dg = digest signed ("this" / "other" transaction)                        *)
Sig(pk, by, dg) == [pk |-> pk, by |-> by, dg |-> dg]
V(k) == Sig(k, k, "this")
SelfValid(s) == s.pk \in Keys /\ s.by = s.pk /\ s.dg = "this"
SigOK(s, k) == s.pk = k /\ SelfValid(s)                \* utils.IdentifyAK(k, s, digest)
NoXS == [on |-> FALSE, pks |-> <<>>, kind |-> "none", by |-> <<>>, dg |-> "this"]
XS(pks, kind, by, dg) == [on |-> TRUE, pks |-> pks, kind |-> kind, by |-> by, dg |-> dg]
In(o) == [own |-> o, cj |-> FALSE, mk |-> FALSE]
InCJ(o) == [own |-> o, cj |-> TRUE, mk |-> FALSE]
InMK(o) == [own |-> o, cj |-> FALSE, mk |-> TRUE]
SingleKinds == {"ecdsa", "xecdsa", "schnorr"}

-----------------------------------------------------------------------------
(* utils.IdentifyAccount(account, uris), transcribed: ptree.buildPermTree walks the URIs in order; only    *)
(* URIs account/key hang a child under the root, FindChild merges a repeated name into the node that is   *)
(* already there; the validator then walks the children (ThresholdValidator: sum of the weights, one per  *)
(* child; AKSetsValidator: some set all of whose keys are children).  Final components were verified      *)
(* before.                                                                                                *)
Dedup(s) == FoldLeft(LAMBDA acc, x : IF x \in Rng(acc) THEN acc ELSE Append(acc, x), <<>>, s)
Children(a, uris) == Dedup(FoldLeft(LAMBDA acc, u : IF Len(u) = 2 /\ u[1] = a THEN Append(acc, u[2]) ELSE acc, <<>>, uris))
IdAcct(K, a, uris) == IF ~HasRule(a) THEN TRUE      \* "empty ACL means everyone could pass"
                      ELSE LET ch == Children(a, uris) IN
                           IF RuleKind(a) = "thr" THEN FoldLeft(LAMBDA sum, k : sum + Weight(a, k), 0, ch) >= Accept(a)
                           ELSE \E ks \in KeySets(a) : ks \subseteq Rng(ch)
(* the members a signer list names for an account, as a set (the semantic reading; used for the honest forms) *)
MembersVia(a, uris) == {u[2] : u \in {w \in Rng(uris) : Len(w) = 2 /\ w[1] = a}}

(* State.verifyXuperSign *)
Lasts(auth) == FoldLeft(LAMBDA acc, u : Append(acc, LastOf(u)), <<>>, auth)
AddrList(t) == Dedup(<<t.init>> \o Lasts(t.auth))
XSigOK(K, xs) ==
  /\ xs.dg = "this" /\ xs.pks # <<>>
  /\ CASE xs.kind = "agg" -> Len(xs.pks) >= 2 /\ BagEq(xs.by, xs.pks)
       [] xs.kind \in SingleKinds -> xs.by # <<>> /\ xs.by[1] = xs.pks[1] /\ (K.xs \/ Len(xs.pks) = 1)
       [] xs.kind = "ring" -> K.xs /\ Len(xs.pks) >= 3 /\ xs.by # <<>> /\ xs.by[1] \in Rng(xs.pks)
       [] OTHER -> FALSE
XSign(K, t) ==
  LET al == AddrList(t) IN
  IF Len(al) = Len(t.xs.pks) /\ (\A i \in DOMAIN al : t.xs.pks[i] = al[i] /\ IsKey(al[i])) /\ XSigOK(K, t.xs)
  THEN [ok |-> TRUE, ver |-> Rng(al)] ELSE [ok |-> FALSE, ver |-> {}]

(* State.verifySignatures *)
VerifySigs(K, t) ==
  IF t.xs.on THEN XSign(K, t)
  ELSE IF Len(t.isigs) < 1 \/ Len(t.auth) # Len(t.asigs) THEN [ok |-> FALSE, ver |-> {}]
  ELSE LET ini == IF IsKey(t.init)
                  THEN [ok |-> SigOK(t.isigs[1], t.init), ver |-> {t.init}]
                  ELSE IF IsAcct(t.init)
                  THEN [ok |-> /\ \A i \in DOMAIN t.isigs : SelfValid(t.isigs[i])
                               /\ (IF HasRule(t.init) THEN IdAcct(K, t.init, [i \in DOMAIN t.isigs |-> <<t.init, t.isigs[i].pk>>])
                                   ELSE K.ghost),
                        ver |-> {t.isigs[i].pk : i \in DOMAIN t.isigs}]
                  ELSE [ok |-> FALSE, ver |-> {}]
       IN IF ~ini.ok THEN [ok |-> FALSE, ver |-> {}]
          ELSE FoldLeft(LAMBDA acc, i :
                 IF ~acc.ok THEN acc
                 ELSE LET a == LastOf(t.auth[i]) IN
                      IF a \in acc.ver THEN acc
                      ELSE IF SigOK(t.asigs[i], a) THEN [ok |-> TRUE, ver |-> acc.ver \cup {a}]
                      ELSE [ok |-> FALSE, ver |-> {}],
                 ini, Idx(Len(t.auth)))

(* State.verifyUTXOPermission *)
VerifyUtxo(K, t, ver0) ==
  FoldLeft(LAMBDA acc, i :
      IF ~acc.ok THEN acc
      ELSE LET o == t.ins[i].own IN
           IF t.ins[i].cj \/ o \in acc.ver THEN acc
           ELSE IF IsAcct(o) /\ HasRule(o) /\ IdAcct(K, o, t.auth) THEN [ok |-> TRUE, ver |-> acc.ver \cup {o}]
           ELSE [ok |-> FALSE, ver |-> acc.ver],
    [ok |-> TRUE, ver |-> ver0], Idx(Len(t.ins)))

(* State.verifyTxRWSets, as far as the utxo side is concerned: the transient entry ContractUtxo.Inputs  *)
(* (the inputs with cj) must be exactly what re-executing the carried requests selects.                 *)
CJOwners(t) == FoldLeft(LAMBDA acc, x : IF x.cj THEN Append(acc, x.own) ELSE acc, <<>>, t.ins)
Reproduced(t) == IF t.ctr = "pay" THEN CJOwners(t) = <<"C">> ELSE CJOwners(t) = <<>>

Immediate(K, t) ==
  /\ t.ver \in 1..3
  /\ t.id = "ok"
  /\ LET s == VerifySigs(K, t) IN s.ok /\ VerifyUtxo(K, t, s.ver).ok
  /\ Reproduced(t)
(* a reference to a marked transaction: a token input that spends one of its outputs, or a key input (read set)  *)
(* that names the version it wrote ("mread": the carried request reads such a key)                                *)
RefMarked(t) == (\E i \in DOMAIN t.ins : t.ins[i].mk) \/ t.ctr = "mread"
(* State.verifyMarked, the fall-back State.VerifyTx (pool) and verifyDAGTxs (PlayAndRepost) consult only after      *)
(* ImmediateVerifyTx has FAILED; Walk has none.  mh: the height of the block the transaction arrives in relative   *)
(* to the effective height of the mark on the transaction it refers to ("pool": no block).  Transcribed:           *)
(*   checkRelyOnMarkedTxid  a reference to a marked transaction passes iff the transaction sits in a block that    *)
(*                          is not higher than the effective height; it reports "relies on a marked transaction"   *)
(*   verifyRelyOnMarkedTxs  stops at the first reference that does not pass with (false, relies); when every       *)
(*                          reference passes it ends with (true, the function-level flag) - and that flag is never *)
(*                          set: the results in the loops are declared with := , shadows of it                     *)
(*   callers                `if isRelyOnMarkedTx { return the fall-back's verdict }` else the failure stands       *)
(* so the fall-back only ever turns a failure into another failure ("soft": (false, nil), KF_MarkedRefSoftAccept). *)
(* With the flag propagated a block entry at / below the effective height would be taken although it failed.       *)
MarkHeights == {"above", "at", "below"}
RefPasses(mh) == mh \in {"at", "below"}
MarkedFallback(t, mh) == IF ~RefMarked(t) THEN [ok |-> TRUE, rely |-> FALSE]
                         ELSE IF RefPasses(mh) THEN [ok |-> TRUE, rely |-> FALSE]    \* (the shadowed flag)
                         ELSE [ok |-> FALSE, rely |-> TRUE]
VerifyAt(K, t, mh) == IF Immediate(K, t) THEN "ok"
                      ELSE LET f == MarkedFallback(t, mh) IN
                           IF ~f.rely THEN "rej" ELSE IF f.ok THEN "ok" ELSE IF K.mref THEN "soft" ELSE "rej"
(* State.VerifyTx: a failing transaction that refers to a marked transaction gets (false, nil) *)
VerifyCode(K, t) == VerifyAt(K, t, "pool")

-----------------------------------------------------------------------------
(* The semantic definition (property statement). *)
ValidSigners(t) ==
  {s.pk : s \in {x \in Rng(t.isigs) \cup Rng(t.asigs) : SelfValid(x)}}
  \cup (IF t.xs.on /\ t.xs.dg = "this"
        THEN (IF t.xs.kind = "agg" /\ BagEq(t.xs.by, t.xs.pks) /\ t.xs.pks # <<>> THEN Rng(t.xs.pks)
              ELSE IF t.xs.kind \in SingleKinds \cup {"ring"} /\ t.xs.by # <<>> /\ t.xs.by[1] \in Rng(t.xs.pks) THEN {t.xs.by[1]}
              ELSE {})
        ELSE {})
Listed(t) == ({t.init} \cap Keys) \cup {LastOf(t.auth[i]) : i \in DOMAIN t.auth}
RuleMet(a, S) == HasRule(a) /\ (IF RuleKind(a) = "thr" THEN SumW(a, S) >= Accept(a) ELSE \E ks \in KeySets(a) : ks \subseteq S)
Authorised(t) ==
  LET vs == ValidSigners(t) IN
  /\ t.ver \in 1..3
  /\ t.id = "ok"                                            \* id = hash of the content
  /\ IF IsKey(t.init) THEN t.init \in vs                    \* the initiator signed ...
     ELSE IsAcct(t.init) /\ RuleMet(t.init, vs)             \* ... or its account's rule is met by valid signers
  /\ \A i \in DOMAIN t.auth : LastOf(t.auth[i]) \in vs      \* every listed signer signed
  /\ \A i \in DOMAIN t.ins :                                \* every spent output's owner is among them ...
       LET o == t.ins[i].own IN
       \/ o \in vs \cap (Listed(t) \cup {t.isigs[j].pk : j \in DOMAIN t.isigs})
       \/ IsAcct(o) /\ RuleMet(o, vs)                       \* ... or through its account's rule
       \/ t.ins[i].cj /\ o = "C" /\ t.ctr = "pay" /\ Reproduced(t)   \* ... or the carried contract code performs the spend

-----------------------------------------------------------------------------
(* Forms.  isl = the keys whose signatures make up initiator_signs, auth = the AuthRequire URIs,  *)
(* pks = XuperSign public keys (aggregated forms).                                                 *)
U1(k) == <<k>>
UA(a, k) == <<a, k>>
FormDef ==
  [addr   |-> [init |-> "k1", isl |-> <<"k1">>,       auth |-> <<>>,                              pks |-> <<>>],
   self   |-> [init |-> "k1", isl |-> <<"k1">>,       auth |-> <<U1("k1"), U1("k2")>>,            pks |-> <<>>],
   multi  |-> [init |-> "k1", isl |-> <<"k1">>,       auth |-> <<U1("k2"), U1("k3")>>,            pks |-> <<>>],
   multiA |-> [init |-> "k1", isl |-> <<"k1">>,       auth |-> <<UA("A", "k2"), UA("A", "k3")>>,  pks |-> <<>>],
   acct   |-> [init |-> "A",  isl |-> <<"k2", "k3">>, auth |-> <<UA("A", "k2"), UA("A", "k3")>>,  pks |-> <<>>],
   acctI  |-> [init |-> "A",  isl |-> <<"k2", "k3">>, auth |-> <<>>,                              pks |-> <<>>],
   ghost  |-> [init |-> "G",  isl |-> <<"k1">>,       auth |-> <<>>,                              pks |-> <<>>],
   xs1    |-> [init |-> "k1", isl |-> <<>>,           auth |-> <<>>,                              pks |-> <<"k1">>],
   xs3    |-> [init |-> "k1", isl |-> <<>>,           auth |-> <<U1("k2"), U1("k3")>>,            pks |-> <<"k1", "k2", "k3">>],
   xsA    |-> [init |-> "k1", isl |-> <<>>,           auth |-> <<UA("A", "k2"), UA("A", "k3")>>,  pks |-> <<"k1", "k2", "k3">>],
   \* signer lists with repeated and aliasing entries, rules that need distinct members
   dupA   |-> [init |-> "k1", isl |-> <<"k1">>,       auth |-> <<UA("A", "k2"), UA("A", "k2")>>,                 pks |-> <<>>],   \* one member listed twice
   dupA3  |-> [init |-> "k1", isl |-> <<"k1">>,       auth |-> <<UA("A", "k2"), UA("A", "k2"), UA("A", "k3")>>,  pks |-> <<>>],   \* ... beside the second member
   alias  |-> [init |-> "k1", isl |-> <<"k1">>,       auth |-> <<U1("k2"), UA("A", "k2")>>,                      pks |-> <<>>],   \* one key through two URIs
   alias2 |-> [init |-> "k1", isl |-> <<"k1">>,       auth |-> <<UA("A", "k2"), UA("B", "k2")>>,                 pks |-> <<>>],   \* one key for two accounts
   halfA  |-> [init |-> "k1", isl |-> <<"k1">>,       auth |-> <<UA("A", "k2")>>,                                pks |-> <<>>],
   memb   |-> [init |-> "k2", isl |-> <<"k2">>,       auth |-> <<UA("A", "k2")>>,                                pks |-> <<>>],   \* a member initiates and lists itself
   acctD  |-> [init |-> "A",  isl |-> <<"k2", "k2">>, auth |-> <<>>,                                             pks |-> <<>>],   \* account initiator signed twice by one member
   acctDA |-> [init |-> "A",  isl |-> <<"k2", "k2">>, auth |-> <<UA("A", "k2"), UA("A", "k2")>>,                 pks |-> <<>>],
   acctT  |-> [init |-> "T",  isl |-> <<"k1", "k3">>, auth |-> <<>>,                                             pks |-> <<>>],
   t23    |-> [init |-> "k1", isl |-> <<"k1">>,       auth |-> <<UA("T", "k1"), UA("T", "k2")>>,                 pks |-> <<>>],   \* two of three
   tdup   |-> [init |-> "k1", isl |-> <<"k1">>,       auth |-> <<UA("T", "k2"), UA("T", "k2")>>,                 pks |-> <<>>],
   ldup   |-> [init |-> "k1", isl |-> <<"k1">>,       auth |-> <<UA("L", "k2"), UA("L", "k3"), UA("L", "k2")>>,  pks |-> <<>>],   \* weights below the threshold
   s1     |-> [init |-> "k1", isl |-> <<"k1">>,       auth |-> <<UA("S", "k2")>>,                                pks |-> <<>>],
   sdup   |-> [init |-> "k1", isl |-> <<"k1">>,       auth |-> <<UA("S", "k3"), UA("S", "k3")>>,                 pks |-> <<>>],
   kset   |-> [init |-> "k1", isl |-> <<"k1">>,       auth |-> <<UA("K", "k3")>>,                                pks |-> <<>>],
   kset2  |-> [init |-> "k1", isl |-> <<"k1">>,       auth |-> <<UA("K", "k1"), UA("K", "k2")>>,                 pks |-> <<>>],
   khalf  |-> [init |-> "k1", isl |-> <<"k1">>,       auth |-> <<UA("K", "k2"), UA("K", "k2")>>,                 pks |-> <<>>],
   \* aggregated-signature form with account initiators and account-owned inputs (an account has no key: pks names
   \* the signers of auth only; the public-key status "lead" puts a key into the initiator's position)
   xsAi   |-> [init |-> "A",  isl |-> <<>>,           auth |-> <<UA("A", "k2"), UA("A", "k3")>>,  pks |-> <<"k2", "k3">>],        \* members that meet the rule
   xsAiH  |-> [init |-> "A",  isl |-> <<>>,           auth |-> <<UA("A", "k2")>>,                 pks |-> <<"k2">>],              \* one member: rule not met
   xsAiX  |-> [init |-> "A",  isl |-> <<>>,           auth |-> <<U1("kx")>>,                      pks |-> <<"kx">>],              \* a stranger
   xsAiXX |-> [init |-> "A",  isl |-> <<>>,           auth |-> <<U1("kx"), U1("k1")>>,            pks |-> <<"kx", "k1">>],        \* strangers multi-sign
   xsAiXA |-> [init |-> "A",  isl |-> <<>>,           auth |-> <<UA("A", "kx"), UA("A", "k1")>>,  pks |-> <<"kx", "k1">>],        \* ... naming the account
   xsAi0  |-> [init |-> "A",  isl |-> <<>>,           auth |-> <<>>,                              pks |-> <<"k2">>],              \* no signer listed
   xsAh   |-> [init |-> "k1", isl |-> <<>>,           auth |-> <<UA("A", "k2")>>,                 pks |-> <<"k1", "k2">>],
   xsAd   |-> [init |-> "k1", isl |-> <<>>,           auth |-> <<UA("A", "k2"), UA("A", "k2")>>,  pks |-> <<"k1", "k2">>],
   xsT    |-> [init |-> "k1", isl |-> <<>>,           auth |-> <<UA("T", "k2"), UA("T", "k3")>>,  pks |-> <<"k1", "k2", "k3">>]]
OldSigForms == {"addr", "self", "multi", "multiA", "acct", "acctI", "ghost"}
RuleForms == {"dupA", "dupA3", "alias", "alias2", "halfA", "memb", "acctD", "acctDA", "acctT", "t23", "tdup", "ldup", "s1", "sdup", "kset", "kset2", "khalf"}
OldXSForms == {"xs1", "xs3", "xsA"}
AcctXSForms == {"xsAi", "xsAiH", "xsAiX", "xsAiXX", "xsAiXA", "xsAi0", "xsAh", "xsAd", "xsT"}
SigForms == OldSigForms \cup RuleForms
XSForms  == OldXSForms \cup AcctXSForms
OldForms == OldSigForms \cup OldXSForms
Forms == SigForms \cup XSForms
(* forms no honest sender uses: the code refuses them whatever is signed *)
HonestForms == Forms \ {"ghost", "acctD", "acctDA", "xsAi", "xsAiH", "xsAiX", "xsAiXX", "xsAiXA", "xsAi0"}
Slots(f) == FormDef[f].isl \o Lasts(FormDef[f].auth)

(* per-slot signature statuses *)
Statuses == <<"valid", "invalid", "forged", "otherkey", "othertx", "missing", "first">>
SigOf(st, k, k1st) == CASE st = "valid"    -> Sig(k, k, "this")
                  [] st = "invalid"  -> Sig(k, "junk", "this")       \* corrupted signature bytes
                  [] st = "forged"   -> Sig(k, "kx", "this")         \* k's public key, signed with another key
                  [] st = "otherkey" -> Sig("kx", "kx", "this")      \* another key signs and shows its own public key
                  [] st = "othertx"  -> Sig(k, k, "other")           \* k's valid signature for another transaction
                  [] st = "missing"  -> Sig(k, k, "this")            \* (dropped from the list)
                  [] st = "first"    -> Sig(k1st, k1st, "this")      \* replay: the valid entry of the first slot's key, put here again
Keep(f, sg, lo, hi) == FoldLeft(LAMBDA acc, i : IF i < lo \/ i > hi \/ sg[i] = "missing" THEN acc ELSE Append(acc, SigOf(sg[i], Slots(f)[i], Slots(f)[1])),
                                <<>>, Idx(Len(sg)))
(* all status vectors of length n with at most d non-valid entries *)
RECURSIVE Vecs(_, _)
Vecs(n, d) == IF n = 0 THEN {<<>>}
              ELSE {Append(v, "valid") : v \in Vecs(n - 1, d)}
                   \cup (IF d = 0 THEN {} ELSE {Append(v, Statuses[j]) : v \in Vecs(n - 1, d - 1), j \in 2..Len(Statuses)})
AllValid(n) == [i \in 1..n |-> "valid"]

(* aggregated-signature statuses: public-key list x signature *)
PkStatuses == {"ok", "swap", "alien", "short", "long", "lead"}
PksOf(p, st) == CASE st = "ok" -> p
                  [] st = "swap" -> IF Len(p) >= 2 THEN <<p[2], p[1]>> \o SubSeq(p, 3, Len(p)) ELSE p
                  [] st = "alien" -> IF p = <<>> THEN p ELSE [p EXCEPT ![Len(p)] = "kx"]
                  [] st = "short" -> IF p = <<>> THEN p ELSE SubSeq(p, 1, Len(p) - 1)
                  [] st = "long" -> Append(p, "kx")
                  [] st = "lead" -> <<"k2">> \o p          \* a key in the position of an (account) initiator
XSigStatuses == {"honest", "other", "aggsub", "aggq", "ecdsa1", "ecdsa1other", "ecdsa2", "xecdsa1", "schnorr1", "ring1", "ring2", "junk", "empty"}
HonestKind(p) == IF Len(p) = 1 THEN "ecdsa" ELSE "agg"
XSOf(p, pkst, sst) ==
  LET q == PksOf(p, pkst)
      second == IF Len(p) >= 2 THEN p[2] ELSE "kx" IN
  CASE sst = "honest"      -> XS(q, HonestKind(p), p, "this")
    [] sst = "other"       -> XS(q, HonestKind(p), p, "other")
    [] sst = "aggsub"      -> XS(q, "agg", [p EXCEPT ![Len(p)] = p[1]] \o (IF Len(p) = 1 THEN <<p[1]>> ELSE <<>>), "this")
    [] sst = "aggq"        -> XS(q, HonestKind(q), q, "this")      \* a valid signature by exactly the keys of the (altered) list
    [] sst = "ecdsa1"      -> XS(q, "ecdsa", <<p[1]>>, "this")
    [] sst = "ecdsa1other" -> XS(q, "ecdsa", <<p[1]>>, "other")
    [] sst = "ecdsa2"      -> XS(q, "ecdsa", <<second>>, "this")
    [] sst = "xecdsa1"     -> XS(q, "xecdsa", <<p[1]>>, "this")
    [] sst = "schnorr1"    -> XS(q, "schnorr", <<p[1]>>, "this")
    [] sst = "ring1"       -> XS(q, "ring", <<p[1]>>, "this")
    [] sst = "ring2"       -> XS(q, "ring", <<second>>, "this")
    [] sst = "junk"        -> XS(q, "junk", <<>>, "this")
    [] sst = "empty"       -> XS(q, "empty", <<>>, "this")
(* a ring needs the signer inside the ring and at least three members (the library's minimum) *)
XSBuildable(xs) == /\ xs.kind = "ring" => (Len(xs.pks) >= 3 /\ xs.by[1] \in Rng(xs.pks))
                   /\ xs.kind \in {"agg", "ecdsa", "xecdsa", "schnorr"} => xs.by # <<>>

(* owner configurations: inputs and the contract part *)
OC(ins, ctr) == [ins |-> ins, ctr |-> ctr]
BasicOwners == {OC(<<>>, "none"), OC(<<In("k1")>>, "none"), OC(<<In("kx")>>, "none"), OC(<<In("A")>>, "none")}
AcctOwners == {OC(<<In(o)>>, "none") : o \in {"T", "L", "S", "K"}}      \* (A, B, G are among the others)
AllOwners == BasicOwners \cup
  {OC(<<In(o)>>, "none") : o \in {"k2", "k3", "B", "G", "C"}} \cup
  {OC(<<In("k1"), In("kx")>>, "none"), OC(<<In("kx"), In("k1")>>, "none"), OC(<<In("k1"), In("A")>>, "none"),
   OC(<<In("A"), In("A")>>, "none"), OC(<<In("k2"), In("k3")>>, "none"), OC(<<In("A"), In("B")>>, "none"),
   OC(<<In("k1")>>, "vprog"), OC(<<In("kx")>>, "vprog"), OC(<<>>, "vprog"),
   OC(<<InCJ("C")>>, "pay"),                      \* the contract pays out of its own funds
   OC(<<InCJ("C"), In("k1")>>, "pay"),
   OC(<<InCJ("kx")>>, "none"),                    \* a forged transient entry without request
   OC(<<InCJ("kx")>>, "vprog"),                   \* ... with an unrelated request
   OC(<<InCJ("C"), InCJ("kx")>>, "pay"),          \* ... beside the real contract spend
   OC(<<InCJ("kx"), InCJ("C")>>, "pay"),
   OC(<<InCJ("C"), In("kx")>>, "pay"),
   OC(<<In("C")>>, "pay"),                        \* the contract's output without justification
   OC(<<InCJ("C"), InCJ("C")>>, "pay"),
   OC(<<InCJ("k1")>>, "none"),
   OC(<<InMK("k1")>>, "none"), OC(<<InMK("kx")>>, "none"), OC(<<In("k1"), InMK("kx")>>, "none"),
   OC(<<InMK("A")>>, "none"), OC(<<InMK("k1"), In("k1")>>, "none"),
   OC(<<>>, "mread"), OC(<<In("k1")>>, "mread"), OC(<<In("kx")>>, "mread")} \cup   \* the request reads a key the marked transaction wrote
  AcctOwners \cup
  {OC(<<In("A"), In("T")>>, "none"), OC(<<In("K"), In("k1")>>, "none"), OC(<<In("S"), In("L")>>, "none"), OC(<<In("T")>>, "vprog")}

BuildSig(v, f, sg, id, oc) ==
  LET d == FormDef[f]
      ni == Len(d.isl) IN
  [ver |-> v, init |-> d.init, isigs |-> Keep(f, sg, 1, ni), auth |-> d.auth, asigs |-> Keep(f, sg, ni + 1, Len(sg)),
   xs |-> NoXS, id |-> id, ins |-> oc.ins, ctr |-> oc.ctr, rich |-> FALSE]
BuildXS(v, f, pkst, sst, id, oc) ==
  LET d == FormDef[f] IN
  [ver |-> v, init |-> d.init, isigs |-> <<>>, auth |-> d.auth, asigs |-> <<>>,
   xs |-> XSOf(d.pks, pkst, sst), id |-> id, ins |-> oc.ins, ctr |-> oc.ctr, rich |-> FALSE]

(* what an honest sender of each form may spend: the outputs of the keys that sign, and of the accounts  *)
(* whose rule the members named for it in the signer list meet                                           *)
SignKeys(f) == Rng(FormDef[f].isl) \cup Rng(Lasts(FormDef[f].auth)) \cup Rng(FormDef[f].pks) \cup ({FormDef[f].init} \cap Keys)
HonestOwnerSets == [f \in Forms |-> SignKeys(f) \cup {a \in Accts : RuleMet(a, MembersVia(a, FormDef[f].auth))}]
HonestOC(f, oc) == /\ oc.ctr # "mread"
                   /\ \A i \in DOMAIN oc.ins : ~oc.ins[i].mk /\
                        IF oc.ins[i].cj THEN oc.ins[i].own = "C" /\ oc.ctr = "pay" ELSE oc.ins[i].own \in HonestOwnerSets[f]
                   /\ (oc.ctr = "pay" => Cardinality({i \in DOMAIN oc.ins : oc.ins[i].cj}) = 1)
HonestTx(v, f, oc) == IF f \in SigForms THEN BuildSig(v, f, AllValid(Len(Slots(f))), "ok", oc)
                      ELSE BuildXS(v, f, "ok", "honest", "ok", oc)
Honest(t) == /\ t.id = "ok" /\ (\A i \in DOMAIN t.isigs : SelfValid(t.isigs[i])) /\ (\A i \in DOMAIN t.asigs : SelfValid(t.asigs[i]))   \* (cheap guards)
             /\ (t.xs.on => t.xs.dg = "this" /\ t.xs.kind \in {"agg", "ecdsa"})
             /\ \E f \in {g \in HonestForms : FormDef[g].init = t.init /\ FormDef[g].auth = t.auth} :
                  LET oc == OC(t.ins, t.ctr) IN oc \in AllOwners /\ HonestOC(f, oc) /\ [t EXCEPT !.rich = FALSE] = HonestTx(t.ver, f, oc)

(* Cases are identified by small tuples <<form, index of the status vector, id status, index of the owner  *)
(* configuration, version>> (sets of deep records are expensive to normalise); CaseOf builds the record.    *)
VecTab == [f \in SigForms |-> SetToSeq(Vecs(Len(Slots(f)), MaxDev))]
(* the account forms of the aggregated signature take a slice of the statuses (the old forms take all) *)
AcctXSStat == {"ok", "short", "long", "lead", "alien"} \X {"honest", "other", "aggsub", "aggq", "ecdsa1", "junk"}
XSTab == [f \in XSForms |-> SetToSeq({q \in (IF f \in OldXSForms THEN PkStatuses \X XSigStatuses ELSE AcctXSStat) : XSBuildable(XSOf(FormDef[f].pks, q[1], q[2]))})]
OwnerSeq == SetToSeq(AllOwners)
BasicIdx == {i \in DOMAIN OwnerSeq : OwnerSeq[i] \in BasicOwners}
AcctIdx == {i \in DOMAIN OwnerSeq : OwnerSeq[i] \in AcctOwners}
TabLen(f) == IF f \in SigForms THEN Len(VecTab[f]) ELSE Len(XSTab[f])
MaxTab == Max({TabLen(f) : f \in Forms})
NonValid(vec) == Cardinality({i \in DOMAIN vec : vec[i] # "valid"})
(* number of deviations from the honest signatures of the form *)
DevAt(f, k) == IF f \in SigForms THEN NonValid(VecTab[f][k]) ELSE IF XSTab[f][k] = <<"ok", "honest">> THEN 0 ELSE 1
HonestAt(f, k) == DevAt(f, k) = 0
(* owner configurations per case: honestly signed - all; otherwise the basic ones (FullOwners: all for the old     *)
(* forms and one deviation; the new forms: the basic ones and the new accounts); a stale id adds nothing to a     *)
(* case of the new forms that is refused anyway                                                                   *)
OwnerIdxFor(f, k, id) ==
  LET d == DevAt(f, k) IN
  IF f \in OldForms THEN (IF FullOwners \/ d = 0 THEN DOMAIN OwnerSeq ELSE BasicIdx)
  ELSE IF d = 0 THEN (IF id = "ok" THEN DOMAIN OwnerSeq ELSE BasicIdx \cup AcctIdx)
  ELSE IF id = "stale" \/ d > 1 THEN (IF FullOwners /\ id = "ok" THEN BasicIdx ELSE {})
  ELSE (IF FullOwners THEN BasicIdx \cup AcctIdx ELSE BasicIdx)
(* a filtered product, not a UNION of many small sets (TLC's UNION is quadratic on large results) *)
MkIdx == {i \in DOMAIN OwnerSeq : OwnerSeq[i].ctr = "mread" \/ \E j \in DOMAIN OwnerSeq[i].ins : OwnerSeq[i].ins[j].mk}
MkForms == {"addr", "multi", "multiA", "acctI"}
MkCaseIds == {c \in MkForms \X (1..MaxTab) \X {"ok", "stale"} \X MkIdx \X (1..3) : c[2] <= TabLen(c[1]) /\ DevAt(c[1], c[2]) <= 1}
CaseIds == {c \in Forms \X (1..MaxTab) \X {"ok", "stale"} \X (DOMAIN OwnerSeq) \X (1..3) :
              c[2] <= TabLen(c[1]) /\ c[4] \in OwnerIdxFor(c[1], c[2], c[3])} \cup MkCaseIds
CaseOf(c) == IF c[1] \in SigForms THEN BuildSig(c[5], c[1], VecTab[c[1]][c[2]], c[3], OwnerSeq[c[4]])
             ELSE BuildXS(c[5], c[1], XSTab[c[1]][c[2]][1], XSTab[c[1]][c[2]][2], c[3], OwnerSeq[c[4]])

-----------------------------------------------------------------------------
(* (b) The field table: every field of the Transaction schema reachable by reflection, with the class  *)
(* the property demands.  The Go driver walks the real schema: a field missing here (or a stale entry, *)
(* or another kind) makes the check exit 2.                                                            *)
(*   digest : semantic content - must be bound by the signing digest (and hence by the id)             *)
(*   sig    : signatures - bound by the id only                                                        *)
(*   id     : the claimed id                                                                           *)
(*   none   : node-local annotations (block id, reception time, the regulator's annotation)            *)
(* kind: bytes string int bool msg (singular message) rmsg rstr rbytes (repeated) map                  *)
FT(m, f, kind, class, sb) == [name |-> m \o "." \o f, msg |-> m, field |-> f, kind |-> kind, class |-> class, sub |-> sb]
FieldTable == <<
  FT("Transaction", "txid", "bytes", "id", ""),
  FT("Transaction", "blockid", "bytes", "none", ""),
  FT("Transaction", "tx_inputs", "rmsg", "digest", "TxInput"),
  FT("Transaction", "tx_outputs", "rmsg", "digest", "TxOutput"),
  FT("Transaction", "desc", "bytes", "digest", ""),
  FT("Transaction", "coinbase", "bool", "digest", ""),
  FT("Transaction", "nonce", "string", "digest", ""),
  FT("Transaction", "timestamp", "int", "digest", ""),
  FT("Transaction", "version", "int", "digest", ""),
  FT("Transaction", "autogen", "bool", "digest", ""),
  FT("Transaction", "tx_inputs_ext", "rmsg", "digest", "TxInputExt"),
  FT("Transaction", "tx_outputs_ext", "rmsg", "digest", "TxOutputExt"),
  FT("Transaction", "contract_requests", "rmsg", "digest", "InvokeRequest"),
  FT("Transaction", "initiator", "string", "digest", ""),
  FT("Transaction", "auth_require", "rstr", "digest", ""),
  FT("Transaction", "initiator_signs", "rmsg", "sig", "SignatureInfo"),
  FT("Transaction", "auth_require_signs", "rmsg", "sig", "SignatureInfo"),
  FT("Transaction", "received_timestamp", "int", "none", ""),
  FT("Transaction", "xuper_sign", "msg", "sig", "XuperSignature"),
  FT("Transaction", "modify_block", "msg", "none", "ModifyBlock"),
  FT("Transaction", "HD_info", "msg", "digest", "HDInfo"),
  FT("TxInput", "ref_txid", "bytes", "digest", ""),
  FT("TxInput", "ref_offset", "int", "digest", ""),
  FT("TxInput", "from_addr", "bytes", "digest", ""),
  FT("TxInput", "amount", "bytes", "digest", ""),
  FT("TxInput", "frozen_height", "int", "digest", ""),
  FT("TxOutput", "amount", "bytes", "digest", ""),
  FT("TxOutput", "to_addr", "bytes", "digest", ""),
  FT("TxOutput", "frozen_height", "int", "digest", ""),
  FT("TxInputExt", "bucket", "string", "digest", ""),
  FT("TxInputExt", "key", "bytes", "digest", ""),
  FT("TxInputExt", "ref_txid", "bytes", "digest", ""),
  FT("TxInputExt", "ref_offset", "int", "digest", ""),
  FT("TxOutputExt", "bucket", "string", "digest", ""),
  FT("TxOutputExt", "key", "bytes", "digest", ""),
  FT("TxOutputExt", "value", "bytes", "digest", ""),
  FT("InvokeRequest", "module_name", "string", "digest", ""),
  FT("InvokeRequest", "contract_name", "string", "digest", ""),
  FT("InvokeRequest", "method_name", "string", "digest", ""),
  FT("InvokeRequest", "args", "map", "digest", ""),
  FT("InvokeRequest", "resource_limits", "rmsg", "digest", "ResourceLimit"),
  FT("InvokeRequest", "amount", "string", "digest", ""),
  FT("ResourceLimit", "type", "int", "digest", ""),
  FT("ResourceLimit", "limit", "int", "digest", ""),
  FT("SignatureInfo", "PublicKey", "string", "sig", ""),
  FT("SignatureInfo", "Sign", "bytes", "sig", ""),
  FT("XuperSignature", "public_keys", "rbytes", "sig", ""),
  FT("XuperSignature", "signature", "bytes", "sig", ""),
  FT("ModifyBlock", "effective_txid", "string", "none", ""),
  FT("ModifyBlock", "marked", "bool", "digest", ""),       \* switches processing (doTxInternal, verifyMarked): semantic
  FT("ModifyBlock", "effective_height", "int", "none", ""),
  FT("ModifyBlock", "public_key", "string", "none", ""),
  FT("ModifyBlock", "sign", "string", "none", ""),
  FT("HDInfo", "hd_public_key", "bytes", "digest", ""),
  FT("HDInfo", "original_hash", "bytes", "digest", "") >>
FieldNames == {FieldTable[i].name : i \in DOMAIN FieldTable}
FieldOf(n) == FieldTable[CHOOSE i \in DOMAIN FieldTable : FieldTable[i].name = n]
FieldsOfMsg(m) == {FieldTable[i].name : i \in {j \in DOMAIN FieldTable : FieldTable[j].msg = m}}

-----------------------------------------------------------------------------
(* (c) The encoders as token grammars.  A section is a list (one item per element) or single; a slot   *)
(* is one field of an item: ty = token type, opt = the code emits it only when non-empty, cov = further *)
(* fields bound by the token (self-describing JSON values, nested lists).                               *)
(*   v3   : "i" 8-byte integer, "l" length-prefixed bytes, "m" map (count, sorted pairs), "r" nested    *)
(*          (count, pairs of integers); lists are preceded by their count                               *)
(*   v1/2 : "s" JSON string, "n" number, "b" boolean, "j" array / object / null; no counts              *)
SL(f, ty) == [f |-> f, ty |-> ty, opt |-> FALSE, cov |-> {}]
SO(f, ty) == [f |-> f, ty |-> ty, opt |-> TRUE, cov |-> {}]
SC(f, ty, opt, cov) == [f |-> f, ty |-> ty, opt |-> opt, cov |-> cov]
Sec(name, list, f, signs, slots) == [name |-> name, list |-> list, f |-> f, signs |-> signs, slots |-> slots]
SigSlots3 == <<SL("SignatureInfo.PublicKey", "l"), SL("SignatureInfo.Sign", "l")>>
MFlag(K, ty) == IF K.mflag THEN <<>> ELSE <<Sec("mflag", FALSE, "", FALSE, <<SL("ModifyBlock.marked", ty)>>)>>
Gram3(K) == <<
  Sec("tx_inputs", TRUE, "Transaction.tx_inputs", FALSE,
      <<SL("TxInput.ref_txid", "l"), SL("TxInput.ref_offset", "i"), SL("TxInput.from_addr", "l"), SL("TxInput.amount", "l"), SL("TxInput.frozen_height", "i")>>),
  Sec("tx_outputs", TRUE, "Transaction.tx_outputs", FALSE,
      <<SL("TxOutput.amount", "l"), SL("TxOutput.to_addr", "l"), SL("TxOutput.frozen_height", "i")>>),
  Sec("head", FALSE, "", FALSE,
      <<SL("Transaction.desc", "l"), SL("Transaction.coinbase", "i"), SL("Transaction.nonce", "l"), SL("Transaction.timestamp", "i"),
        SL("Transaction.version", "i"), SL("Transaction.autogen", "i")>>),
  Sec("tx_inputs_ext", TRUE, "Transaction.tx_inputs_ext", FALSE,
      <<SL("TxInputExt.bucket", "l"), SL("TxInputExt.key", "l"), SL("TxInputExt.ref_txid", "l"), SL("TxInputExt.ref_offset", "i")>>),
  Sec("tx_outputs_ext", TRUE, "Transaction.tx_outputs_ext", FALSE,
      <<SL("TxOutputExt.bucket", "l"), SL("TxOutputExt.key", "l"), SL("TxOutputExt.value", "l")>>),
  Sec("contract_requests", TRUE, "Transaction.contract_requests", FALSE,
      <<SL("InvokeRequest.module_name", "l"), SL("InvokeRequest.contract_name", "l"), SL("InvokeRequest.method_name", "l"),
        SL("InvokeRequest.args", "m"), SC("InvokeRequest.resource_limits", "r", FALSE, {"ResourceLimit.type", "ResourceLimit.limit"}),
        SL("InvokeRequest.amount", "l")>>),
  Sec("initiator", FALSE, "", FALSE, <<SL("Transaction.initiator", "l")>>),
  Sec("auth_require", TRUE, "Transaction.auth_require", FALSE, <<SL("Transaction.auth_require", "l")>>),
  Sec("initiator_signs", TRUE, "Transaction.initiator_signs", TRUE, SigSlots3),
  Sec("auth_require_signs", TRUE, "Transaction.auth_require_signs", TRUE, SigSlots3),
  Sec("xs_public_keys", TRUE, "XuperSignature.public_keys", TRUE, <<SC("XuperSignature.public_keys", "l", FALSE, {"Transaction.xuper_sign"})>>),
  Sec("xs_signature", FALSE, "Transaction.xuper_sign", TRUE, <<SC("XuperSignature.signature", "l", FALSE, {"Transaction.xuper_sign"})>>),
  Sec("hd", FALSE, "Transaction.HD_info", FALSE, <<SC("HDInfo.hd_public_key", "l", FALSE, {"Transaction.HD_info"}), SL("HDInfo.original_hash", "l")>>) >>
  \o MFlag(K, "i")
Gram12(K, v) == <<
  Sec("tx_inputs", TRUE, "Transaction.tx_inputs", FALSE,
      <<SO("TxInput.ref_txid", "s"), SL("TxInput.ref_offset", "n"), SO("TxInput.from_addr", "s"), SO("TxInput.amount", "s"), SL("TxInput.frozen_height", "n")>>),
  Sec("tx_outputs", FALSE, "", FALSE, <<SC("Transaction.tx_outputs", "j", FALSE, FieldsOfMsg("TxOutput"))>>),
  Sec("head", FALSE, "", FALSE,
      <<SO("Transaction.desc", "s"), SL("Transaction.nonce", "s"), SL("Transaction.timestamp", "n"), SL("Transaction.version", "n")>>),
  Sec("tx_inputs_ext", TRUE, "Transaction.tx_inputs_ext", FALSE,
      <<SL("TxInputExt.bucket", "s"), SO("TxInputExt.key", "s"), SO("TxInputExt.ref_txid", "s"), SL("TxInputExt.ref_offset", "n")>>),
  Sec("tx_outputs_ext", TRUE, "Transaction.tx_outputs_ext", FALSE,
      <<SL("TxOutputExt.bucket", "s"), SO("TxOutputExt.key", "s"), SO("TxOutputExt.value", "s")>>),
  Sec("contract_requests", FALSE, "", FALSE,
      <<SC("Transaction.contract_requests", "j", FALSE, FieldsOfMsg("InvokeRequest") \cup FieldsOfMsg("ResourceLimit"))>>),
  Sec("initiator", FALSE, "", FALSE, <<SL("Transaction.initiator", "s")>>),
  Sec("auth_require", FALSE, "", FALSE, <<SL("Transaction.auth_require", "j")>>),
  Sec("initiator_signs", FALSE, "", TRUE, <<SC("Transaction.initiator_signs", "j", FALSE, FieldsOfMsg("SignatureInfo"))>>),
  Sec("auth_require_signs", FALSE, "", TRUE, <<SC("Transaction.auth_require_signs", "j", FALSE, FieldsOfMsg("SignatureInfo"))>>),
  Sec("xuper_sign", FALSE, "", TRUE, <<SC("Transaction.xuper_sign", "j", TRUE, FieldsOfMsg("XuperSignature"))>>),
  Sec("flags", FALSE, "", FALSE, <<SL("Transaction.coinbase", "b"), SL("Transaction.autogen", "b")>>) >>
  \o (IF v = 1 /\ K.v1hd THEN <<>> ELSE <<Sec("hd", FALSE, "", FALSE, <<SC("Transaction.HD_info", "j", FALSE, FieldsOfMsg("HDInfo"))>>)>>)
  \o MFlag(K, "b")
Gram(K, v) == IF v = 3 THEN Gram3(K) ELSE Gram12(K, v)
Counted(K, v) == v = 3 \/ ~K.omit                  \* lists are preceded by their count
Omits(K, v, slot) == v # 3 /\ K.omit /\ slot.opt    \* the slot is left out when empty

(* what a pre-image binds: derived from the grammar *)
Bound(K, v, signs) ==
  UNION {({s.f} \cup (IF s.list THEN {s.f} ELSE {})) \cup UNION {{sl.f} \cup sl.cov : sl \in Rng(s.slots)}
         : s \in {x \in Rng(Gram(K, v)) : signs \/ ~x.signs}}
Coverage(K, v, f) == IF f \in Bound(K, v, FALSE) THEN "digest" ELSE IF f \in Bound(K, v, TRUE) THEN "idonly" ELSE "none"
CoverageWanted(f) == LET c == FieldOf(f).class IN IF c = "digest" THEN "digest" ELSE IF c = "sig" THEN "idonly" ELSE "none"

(* token sequences.  An item pattern is a 0/1 sequence over the slots: 1 = the field is non-empty. *)
Flex(ty) == ty \in {"l", "s", "j"}
ItemPats(sec) == {p \in [1..Len(sec.slots) -> {0, 1}] : \A i \in 1..Len(sec.slots) : ~Flex(sec.slots[i].ty) => p[i] = 1}
SlotTok(K, v, slot, p) == IF p = 1 THEN <<IF Flex(slot.ty) THEN slot.ty \o "+" ELSE slot.ty>>
                          ELSE IF Omits(K, v, slot) THEN <<>> ELSE <<slot.ty \o "0">>
ItemToks(K, v, sec, pat) == FoldLeft(LAMBDA acc, i : acc \o SlotTok(K, v, sec.slots[i], pat[i]), <<>>, Idx(Len(sec.slots)))
SecToks(K, v, sec, items) ==
  (IF sec.list /\ Counted(K, v) THEN <<"c" \o ToString(Len(items))>> ELSE <<>>)
  \o FoldLeft(LAMBDA acc, it : acc \o ItemToks(K, v, sec, it), <<>>, items)
SecStructs(sec, n) == IF sec.list THEN UNION {[1..k -> ItemPats(sec)] : k \in 0..n} ELSE [1..1 -> ItemPats(sec)]
SecByName(K, v, name) == LET g == Gram(K, v) IN g[CHOOSE i \in DOMAIN g : g[i].name = name]
TxToks(K, v, signs, st) ==      \* st: record section name -> item patterns
  FoldLeft(LAMBDA acc, sec : IF sec.signs /\ ~signs THEN acc ELSE acc \o SecToks(K, v, sec, st[sec.name]), <<>>, Gram(K, v))

(* injectivity inside a section and across the boundary of consecutive sections *)
SecInjective(K, v, sec, n) ==
  LET S == SecStructs(sec, n) IN \A a, b \in S : SecToks(K, v, sec, a) = SecToks(K, v, sec, b) => a = b
BoundaryInjective(K, v, s1, s2, n) ==
  LET A == SecStructs(s1, n)
      B == SecStructs(s2, n)
      T == {<<a, b>> : a \in A, b \in B}
      tok(p) == SecToks(K, v, s1, p[1]) \o SecToks(K, v, s2, p[2]) IN
  Cardinality({tok(p) : p \in T}) = Cardinality(T)
DigestSecs(K, v) == SelectSeq(Gram(K, v), LAMBDA s : ~s.signs)
GrammarInjective(K, v) ==
  /\ \A s \in Rng(Gram(K, v)) : SecInjective(K, v, s, 2)
  /\ \A g \in {DigestSecs(K, v), Gram(K, v)} : \A i \in 1..(Len(g) - 1) : BoundaryInjective(K, v, g[i], g[i + 1], IF g[i].list /\ g[i + 1].list THEN 2 ELSE 1)
(* the ambiguous structure pairs of a section (what TLC hands to the driver for reproduction) *)
AmbPairs(K, v, sec, n) ==
  LET S == SecStructs(sec, n) IN {<<a, b>> \in S \X S : a # b /\ SecToks(K, v, sec, a) = SecToks(K, v, sec, b)}

-----------------------------------------------------------------------------
(* (b) Single-field mutations of an accepted transaction.  m = [f, loc, i, var, st]: field, the          *)
(* Transaction field that holds the message (""; the transaction itself), element index (0: not          *)
(* repeated), variation, and what the mutator recomputes afterwards ("fixid": the id - anybody can).     *)
Mu(f, loc, i, var, st) == [f |-> f, loc |-> loc, i |-> i, var |-> var, st |-> st]
NoMut == Mu("", "", 0, "none", "none")
LocsOf(msg) == CASE msg = "Transaction" -> {""}
                 [] msg = "TxInput" -> {"tx_inputs"}
                 [] msg = "TxOutput" -> {"tx_outputs"}
                 [] msg = "TxInputExt" -> {"tx_inputs_ext"}
                 [] msg = "TxOutputExt" -> {"tx_outputs_ext"}
                 [] msg = "InvokeRequest" -> {"contract_requests"}
                 [] msg = "ResourceLimit" -> {"contract_requests.resource_limits"}
                 [] msg = "SignatureInfo" -> {"initiator_signs", "auth_require_signs"}
                 [] msg = "XuperSignature" -> {"xuper_sign"}
                 [] msg = "ModifyBlock" -> {"modify_block"}
                 [] msg = "HDInfo" -> {"HD_info"}
Repeated(loc) == loc \notin {"", "xuper_sign", "modify_block", "HD_info"}
VarsOf(kind) == CASE kind \in {"bytes", "string"} -> {"flip", "clear", "append"}
                  [] kind = "int" -> {"inc"}
                  [] kind = "bool" -> {"flip"}
                  [] kind \in {"rmsg", "rstr", "rbytes"} -> {"drop", "dup", "swap", "add"}
                  [] kind = "msg" -> {"nil"}
                  [] kind = "map" -> {"addkey", "delkey", "chval"}
Muts == UNION {{Mu(FieldTable[k].name, loc, i, var, st) :
                  loc \in LocsOf(FieldTable[k].msg), i \in 0..2, var \in VarsOf(FieldTable[k].kind), st \in {"none", "fixid"}}
               : k \in DOMAIN FieldTable}
MutsFor(t) == {m \in Muts : /\ (Repeated(m.loc) <=> m.i >= 1)
                            /\ (m.loc = "initiator_signs" => m.i <= Len(t.isigs))
                            /\ (m.loc = "auth_require_signs" => m.i <= Len(t.asigs))
                            /\ (m.loc = "xuper_sign" \/ m.f = "Transaction.xuper_sign" => t.xs.on)
                            /\ ~(m.f = "Transaction.txid" /\ m.st = "fixid")}

Stale(sigs) == [i \in DOMAIN sigs |-> IF sigs[i].dg = "this" THEN [sigs[i] EXCEPT !.dg = "other"] ELSE sigs[i]]
ListOp(s, var, new) == CASE var = "drop" -> IF s = <<>> THEN s ELSE SubSeq(s, 1, Len(s) - 1)
                         [] var = "dup" -> IF s = <<>> THEN s ELSE Append(s, s[Len(s)])
                         [] var = "swap" -> IF Len(s) < 2 THEN s ELSE <<s[2], s[1]>> \o SubSeq(s, 3, Len(s))
                         [] var = "add" -> Append(s, new)
                         [] OTHER -> s
MutTx(K, t, m) ==
  LET cov == IF m.f = "Transaction.txid" THEN "id" ELSE Coverage(K, t.ver, m.f)
      nid == IF m.st = "fixid" THEN "ok" ELSE "stale"
      junk == Sig("kx", "junk", "this") IN
  CASE cov = "none" -> t
    [] cov = "id" -> [t EXCEPT !.id = "stale"]
    [] cov = "digest" -> [t EXCEPT !.isigs = Stale(@), !.asigs = Stale(@), !.xs.dg = "other", !.id = nid]
    [] cov = "idonly" ->
        [(CASE m.f \in {"SignatureInfo.PublicKey", "SignatureInfo.Sign"} ->
                 LET brk(s) == Sig(IF m.f = "SignatureInfo.PublicKey" THEN "bad" ELSE s.pk, "junk", s.dg) IN
                 \* bytes appended to a DER signature are ignored by the decoder: the same (r, s), the same signer
                 IF m.f = "SignatureInfo.Sign" /\ m.var = "append" THEN t
                 ELSE IF m.loc = "initiator_signs" THEN [t EXCEPT !.isigs[m.i] = brk(@)] ELSE [t EXCEPT !.asigs[m.i] = brk(@)]
            [] m.f = "Transaction.initiator_signs" -> [t EXCEPT !.isigs = ListOp(@, m.var, junk)]
            [] m.f = "Transaction.auth_require_signs" -> [t EXCEPT !.asigs = ListOp(@, m.var, junk)]
            [] m.f = "Transaction.xuper_sign" -> [t EXCEPT !.xs = NoXS]
            [] m.f = "XuperSignature.public_keys" -> [t EXCEPT !.xs.pks = ListOp(@, m.var, "kx")]
            [] m.f = "XuperSignature.signature" -> [t EXCEPT !.xs.kind = "junk"]
            [] OTHER -> t) EXCEPT !.id = nid]

(* Strict where the property speaks (DESIGN R2): an unauthorised transaction must be refused, an honest  *)
(* one accepted, anything else may go either way.  ACTUAL additionally allows what the transcription of *)
(* the code with the enabled deviations answers where that differs from the IDEAL transcription.        *)
AllowedIdeal(t) == IF ~Authorised(t) THEN {"rej"} ELSE IF Honest(t) THEN {"ok"} ELSE {"ok", "rej"}
AllowedK(K, t) == AllowedIdeal(t) \cup (IF VerifyCode(K, t) # VerifyCode(K0, t) THEN {VerifyCode(K, t)} ELSE {})
MutAllowedK(K, t, m) == IF m.f # "Transaction.txid" /\ Coverage(K, t.ver, m.f) = "none" THEN {"ok", "rej"} ELSE AllowedK(K, MutTx(K, t, m))
Flags == DOMAIN K0
DevCase(K, t, res) == {KFName[g] : g \in {h \in Flags : K[h] /\ res \in AllowedK(Only(h), t)}}
DevMut(K, t, m, res) == {KFName[g] : g \in {h \in Flags : K[h] /\ res \in MutAllowedK(Only(h), t, m)}}

(* Block-borne coinbase transaction.  It carries no signature, so it may only create the award: a       *)
(* coinbase that also carries a read / write set ("write": the rule of account A rewritten) must make   *)
(* the block unacceptable.                                                                              *)
Riders == {"none", "write"}
CoinbaseVerdict(K, r) == IF r = "none" \/ K.cb THEN "ok" ELSE "rej"

(* The engine entry Chain.SubmitTx decides on the error of State.VerifyTx alone. *)
SubmitCode(K, t) == IF VerifyCode(K, t) = "rej" THEN "rej" ELSE "ok"
SubAllowed(K, t) == {IF v = "soft" THEN "ok" ELSE v : v \in AllowedK(K, t)}

(* Block-borne transactions.  The entry e (a case, or a base t changed by mutation m) arrives inside a  *)
(* peer block [award, e] at a node                                                                      *)
(*   pool "none": that has never seen it,                                                               *)
(*   pool "base": whose unconfirmed pool holds the accepted t (admitted by Chain.SubmitTx); same: the   *)
(*                entry claims the id of the pooled transaction,                                        *)
(* and the block is applied via "walk" (Ledger.ConfirmBlock, State.Walk to the new tip: the engine's    *)
(* sync path) or via "play" (State.PlayAndRepost).  Outcome: res ("ok": the state machine arrived at    *)
(* the block) and app, the content in effect afterwards: "entry", "pool" (the pooled transaction's) or  *)
(* "none".                                                                                              *)
Pools == {"none", "base"}
Vias == {"walk", "play"}
NoBlk == [pool |-> "-", via |-> "-", same |-> FALSE, mh |-> "-", res |-> "-", app |-> "-"]
Entry(K, t, m) == IF m = NoMut THEN t ELSE MutTx(K, t, m)
(* which ids the entry may claim relative to the base: an unchanged id field over changed content is   *)
(* abstractly "stale"; a recomputed id over changed content differs; where nothing the abstraction sees *)
(* changed (uncovered field, appended signature bytes) the recomputed id may or may not differ          *)
SameChoices(t, e, m) == IF m = NoMut \/ e.id = "stale" THEN {TRUE} ELSE IF e = t THEN {TRUE, FALSE} ELSE {FALSE}
(* transcription: Walk rolls the pool back, verifies every block entry (procTodoBlkForWalk:            *)
(* ImmediateVerifyTx) and applies the block's copy; PlayAndRepost (processUnconfirmTxs / verifyDAGTxs)  *)
(* takes an entry whose id is in the pool as confirmed: not verified, not applied, the pooled copy's    *)
(* effects stay - sound only where the block's copy is the pooled content (IDEAL); an entry that fails  *)
(* goes through the marked-transaction fall-back with the block's height (mh)                           *)
BlockCode(K, t, e, pool, via, same, mh) ==
  IF via = "play" /\ pool = "base" /\ same /\ (K.ppool \/ e = t) THEN [res |-> "ok", app |-> "pool"]
  ELSE IF (IF via = "play" THEN VerifyAt(K, e, mh) # "rej" ELSE Immediate(K, e)) THEN [res |-> "ok", app |-> "entry"]
  ELSE [res |-> "rej", app |-> IF via = "play" /\ pool = "base" THEN "pool" ELSE "none"]
(* what the property allows for an observed outcome: res and the set fl of contents the state after the  *)
(* block is consistent with ("e" entry, "p" pooled, "n" nothing; they may coincide)                       *)
BlkVerdicts(K, t, m) == IF m # NoMut /\ m.f # "Transaction.txid" /\ Coverage(K, t.ver, m.f) = "none" THEN {"ok", "rej"}
                        ELSE {IF v = "soft" THEN "ok" ELSE v : v \in AllowedK(K, Entry(K, t, m))}
(* samec: the entry IS the pooled transaction (equal up to the annotations a node adds itself: block id,      *)
(* reception time; the driver compares the real protobufs; abstractly e = t).  The pooled-id deviation explains *)
(* an outcome only for an entry that claims the pooled id and is NOT the pooled transaction.                   *)
BlkAllowedK(K, t, m, pool, via, same, samec, res, fl) ==
  \/ /\ res \in BlkVerdicts(K, t, m)
     /\ (res = "ok" => "e" \in fl)                      \* an accepted block's entry is what is applied ...
     /\ (res = "rej" => fl \cap {"n", "p"} # {})         \* ... and nothing of a refused one
  \/ /\ K.ppool /\ via = "play" /\ pool = "base" /\ same /\ ~samec
     /\ res = "ok" /\ "p" \in fl
DevBlk(K, t, m, pool, via, same, samec, res, fl) == {KFName[g] : g \in {h \in Flags : K[h] /\ BlkAllowedK(Only(h), t, m, pool, via, same, samec, res, fl)}}

(* The family "the entry refers to a marked transaction": its cases (MkCaseIds: every signature status and id  *)
(* status of a few forms over every owner configuration with a marked reference), and what is done to an       *)
(* accepted one of them before it is put into a block beside the pool that holds it: signature bytes, the id   *)
(* field, content under the old and under a recomputed id.                                                     *)
MkMuts == {Mu("SignatureInfo.Sign", "initiator_signs", 1, "flip", "none"), Mu("Transaction.txid", "", 0, "flip", "none"),
           Mu("Transaction.desc", "", 0, "flip", "none"), Mu("Transaction.desc", "", 0, "flip", "fixid"),
           Mu("TxOutput.to_addr", "tx_outputs", 1, "flip", "fixid")}

(* rich bases of part (b): every field of the schema carries a value *)
RichOC == OC(<<In("k1"), In("k2")>>, "vprog")
RichBases == {[HonestTx(v, f, RichOC) EXCEPT !.rich = TRUE] : v \in 1..3, f \in {"multi", "xs3"}}

-----------------------------------------------------------------------------
T0 == BuildSig(3, "addr", <<"valid">>, "ok", OC(<<>>, "none"))
Init == phase = "init" /\ tx = T0 /\ orig = T0 /\ mut = NoMut /\ verdict = "-" /\ subm = "-" /\ blk = NoBlk /\ hist = <<>>
Reset == phase' = "init" /\ tx' = T0 /\ orig' = T0 /\ mut' = NoMut /\ verdict' = "-" /\ subm' = "-" /\ blk' = NoBlk /\ hist' = <<>>

Build(t) == /\ phase = "init"
            /\ tx' = t /\ orig' = t /\ phase' = "built" /\ hist' = Append(hist, [op |-> "case"])
            /\ UNCHANGED <<mut, verdict, subm, blk>>
(* the transcription of the code answers *)
Verify == /\ phase \in {"built", "mutated"}
          /\ verdict' = (IF phase = "mutated" /\ mut.f # "Transaction.txid" /\ Coverage(KC, orig.ver, mut.f) = "none" THEN "ok" ELSE VerifyCode(KC, tx))
          /\ subm' = (IF phase = "mutated" /\ mut.f # "Transaction.txid" /\ Coverage(KC, orig.ver, mut.f) = "none" THEN "ok" ELSE SubmitCode(KC, tx))
          /\ phase' = IF phase = "built" THEN "verified" ELSE "done"
          /\ hist' = Append(hist, [op |-> "verify"])
          /\ UNCHANGED <<tx, orig, mut, blk>>
Mutate(m) == /\ phase = "verified" /\ verdict = "ok" /\ (orig.rich \/ (RefMarked(orig) /\ m \in MkMuts))
             /\ tx' = MutTx(KC, orig, m) /\ mut' = m /\ phase' = "mutated" /\ hist' = Append(hist, [op |-> "mut"])
             /\ UNCHANGED <<orig, verdict, subm, blk>>
(* the transaction (a case as built, or the mutated copy of an accepted base) arrives inside a peer block; *)
(* the pool can only hold the base if that was accepted                                                   *)
Block(pool, via, same, mh) ==
  /\ phase \in {"verified", "done"}
  /\ (mh # "above" => RefMarked(tx))                   \* (the height matters to entries that refer to a marked transaction only)
  /\ (pool = "base" => (IF phase = "done" THEN TRUE ELSE verdict = "ok"))
  /\ same \in SameChoices(orig, tx, mut)
  /\ blk' = [pool |-> pool, via |-> via, same |-> same, mh |-> mh] @@ BlockCode(KC, orig, tx, pool, via, same, mh)
  /\ phase' = "blocked" /\ hist' = Append(hist, [op |-> "blk"])
  /\ UNCHANGED <<tx, orig, mut, verdict, subm>>
(* guards outside the quantifiers: TLC enumerates the bound set before it looks at the action's guard *)
Next == \/ (phase = "init" /\ \E c \in CaseIds : Build(CaseOf(c)))
        \/ (phase = "init" /\ \E t \in RichBases : Build(t))
        \/ Verify
        \/ (phase = "verified" /\ verdict = "ok" /\ orig.rich /\ \E m \in MutsFor(orig) : Mutate(m))
        \/ (phase = "verified" /\ verdict = "ok" /\ RefMarked(orig) /\ ~orig.rich /\ \E m \in MkMuts \cap MutsFor(orig) : Mutate(m))
        \/ (phase \in {"verified", "done"} /\ \E pool \in Pools, via \in Vias, same \in BOOLEAN, mh \in MarkHeights : Block(pool, via, same, mh))
Spec == Init /\ [][Next]_vars
View == <<phase, tx, orig, mut, verdict, subm, blk>>
Obs == verdict

-----------------------------------------------------------------------------
(* Invariants (asserted on IDEAL) *)
TypeOK == /\ phase \in {"init", "built", "verified", "mutated", "done", "blocked"} /\ blk.mh \in MarkHeights \cup {"-"}
          /\ verdict \in {"ok", "rej", "soft", "-"} /\ subm \in {"ok", "rej", "-"}
          /\ tx.ver \in 1..3 /\ tx.id \in {"ok", "stale"} /\ tx.ctr \in {"none", "vprog", "pay", "mread"}
(* (a) accepted => authorised: id = hash of content, initiator and every listed signer signed this digest, *)
(*     every spent output's owner is among them, through its account's rule, or contract-justified        *)
Sound == (phase \in {"verified", "done"} /\ verdict # "rej") => (verdict = "ok" /\ Authorised(tx))
(* (a) the engine entry admits nothing else *)
SubmitSound == (phase \in {"verified", "done"} /\ subm = "ok") => Authorised(tx)
(* (a) an honestly built transaction of every form is accepted; the transcription stays inside Allowed *)
HonestAccepted == (phase = "verified" /\ Honest(tx)) => (verdict = "ok" /\ subm = "ok")
Conforms == phase = "verified" => (verdict \in AllowedIdeal(tx) /\ subm \in SubAllowed(K0, tx))
EveryFormHonest == phase = "init" => \A f \in HonestForms, v \in 1..3 : \E oc \in AllOwners : HonestOC(f, oc) /\ oc.ins # <<>> /\ VerifyCode(K0, HonestTx(v, f, oc)) = "ok"
(* (a) one member does not become two by being listed twice or under two names; an account initiator of  *)
(*     the aggregated form is never accepted on signatures of non-members                                *)
DistinctMembers == (phase = "verified" /\ verdict = "ok") =>
                      \A i \in DOMAIN tx.ins : (IsAcct(tx.ins[i].own) /\ ~tx.ins[i].cj) => RuleMet(tx.ins[i].own, ValidSigners(tx))
(* (a) block-borne: a block is applied only if its entry is authorised, and then the entry's own content   *)
(*     is what is in effect (the pooled copy only where it is the same content); a refused block leaves    *)
(*     none of the entry's content                                                                        *)
BlockSound == phase = "blocked" =>
                 /\ (blk.res = "ok" => Authorised(tx) /\ (blk.app = "entry" \/ (blk.app = "pool" /\ tx = orig)))
                 /\ (~Immediate(K0, tx) /\ RefMarked(tx) => blk.res = "rej")     \* no height of the block opens a way round the signatures
                 /\ (blk.res = "rej" => blk.app # "entry")
                 /\ (Honest(tx) => blk.res = "ok")
                 /\ LET fl == (IF blk.app = "entry" \/ (tx = orig /\ blk.app = "pool") THEN {"e"} ELSE {}) \cup (IF blk.app = "pool" THEN {"p"} ELSE {}) \cup (IF blk.app = "none" THEN {"n"} ELSE {})
                    IN BlkAllowedK(K0, orig, mut, blk.pool, blk.via, blk.same, tx = orig, blk.res, fl)
(* (b) changing a field of class digest / id of an accepted transaction yields rejection, whatever the   *)
(*     mutator recomputes; changing a signature field yields rejection unless the result is authorised   *)
MutationRejected ==
  phase = "done" =>
     LET c == FieldOf(mut.f).class IN
     /\ (c \in {"digest", "id"} => verdict = "rej" /\ subm = "rej")
     /\ (c = "sig" /\ mut.st = "none" /\ tx # orig => verdict = "rej")
(* (b) the table and the encoders agree: every semantic field is bound by the signing digest of every   *)
(*     version, signatures by the id only, annotations by nothing                                        *)
CoverageOK == phase = "init" => \A v \in 1..3 : \A f \in FieldNames : Coverage(KC, v, f) = CoverageWanted(f)
CoinbaseClean == phase = "init" => \A r \in Riders : CoinbaseVerdict(KC, r) = "ok" => r = "none"
(* (c) pre-image injectivity *)
Injective == phase = "init" => \A v \in 1..3 : GrammarInjective(KC, v)
=============================================================================
