------------------------------ MODULE LockTable ------------------------------
(***************************************************************************)
(* C12, the lock table of utxo/spin_lock.go on its own: whole calls of     *)
(* SpinLock.TryLock / SpinLock.Unlock issued by clients that follow        *)
(* doTxSync's protocol (TryLock; whatever it returned is handed to Unlock  *)
(* exactly once, whether TryLock succeeded or not).                        *)
(*                                                                         *)
(* The table is a function of what the clients hold (SpinLock.tla:         *)
(* TableMatchesHeld): a key is locked iff some client holds it; a key may  *)
(* be held by one client exclusively or by any number of sharers.          *)
(*   TryLock(c, L) takes the keys of L in order as long as each can be     *)
(*   taken; it succeeds iff all could be taken.  On failure the code       *)
(*   returns the keys taken so far and keeps them locked until the caller  *)
(*   unlocks them; the specification leaves open HOW MANY of them it hands *)
(*   back (n, any prefix) - but what it hands back stays locked until the  *)
(*   caller's Unlock and what it does not hand back is free at once.       *)
(* Observable after every call (exported API only): the call's result      *)
(* [ok, n] and IsLocked of every key.                                      *)
(***************************************************************************)
EXTENDS Integers, Sequences, FiniteSets, TLC, SequencesExt

CONSTANTS Clients,     \* e.g. {1, 2, 3}
          MaxOps       \* length of a generated behaviour

UKeys == <<"a", "b", "c">>
KeySet == Range(UKeys)
None == "none"
(* a request = the lock keys ExtractLockKeys derives from a transaction that reads the keys rd and writes the keys wr
   (rd, wr disjoint, not both empty): sorted by key, read keys shared, written keys exclusive *)
Requests == {r \in [rd : SUBSET KeySet, wr : SUBSET KeySet] : r.rd \cap r.wr = {} /\ r.rd \cup r.wr # {}}
KeysOf(r) == LET ks == SelectSeq(UKeys, LAMBDA k : k \in r.rd \cup r.wr) IN
             [i \in DOMAIN ks |-> [k |-> ks[i], m |-> IF ks[i] \in r.wr THEN "X" ELSE "S"]]

VARIABLES held,     \* client -> the lock keys it holds (= what its last TryLock returned, until it calls Unlock)
          busy,     \* clients between TryLock and Unlock
          hist
vars == <<held, busy, hist>>

Holders(k, m) == {c \in Clients : \E i \in DOMAIN held[c] : held[c][i].k = k /\ held[c][i].m = m}
Mode(k) == IF Holders(k, "X") # {} THEN "X" ELSE IF Holders(k, "S") # {} THEN "S" ELSE None
CanLock(L) == Mode(L.k) = None \/ (Mode(L.k) = "S" /\ L.m = "S")
(* number of leading keys of L that can be taken (the keys of one request are distinct) *)
PrefixLen(L) == LET bad == {i \in DOMAIN L : ~CanLock(L[i])} IN
                IF bad = {} THEN Len(L) ELSE (CHOOSE i \in bad : \A j \in bad : i <= j) - 1

Init == held = [c \in Clients |-> <<>>] /\ busy = {} /\ hist = <<>>
Reset == held' = [c \in Clients |-> <<>>] /\ busy' = {} /\ hist' = <<>>

(* n: number of keys handed back when the call fails *)
TryLock(c, r, n) ==
  /\ c \notin busy
  /\ LET L == KeysOf(r)
         pl == PrefixLen(L)
         ok == pl = Len(L) IN
     /\ IF ok THEN n = Len(L) ELSE n \in 0..pl
     /\ held' = [held EXCEPT ![c] = SubSeq(L, 1, n)]
     /\ busy' = busy \cup {c}
     /\ hist' = Append(hist, [op |-> "try", c |-> c, rd |-> SelectSeq(UKeys, LAMBDA k : k \in r.rd),
                              wr |-> SelectSeq(UKeys, LAMBDA k : k \in r.wr),
                              res |-> [ok |-> ok, n |-> n]])
Unlock(c) ==
  /\ c \in busy
  /\ held' = [held EXCEPT ![c] = <<>>]
  /\ busy' = busy \ {c}
  /\ hist' = Append(hist, [op |-> "unlock", c |-> c, rd |-> <<>>, wr |-> <<>>, res |-> [ok |-> TRUE, n |-> 0]])

(* the code's choice on failure: everything taken so far *)
Next == \/ \E c \in Clients, r \in Requests : TryLock(c, r, PrefixLen(KeysOf(r)))
        \/ \E c \in Clients : Unlock(c)
Spec == Init /\ [][Next]_vars

Obs == [i \in DOMAIN UKeys |-> Mode(UKeys[i]) # None]

(* ---- invariants ------------------------------------------------------------------------------------ *)
(* a key is held exclusively by one client or shared by sharers only *)
Exclusive == \A k \in KeySet : /\ Cardinality(Holders(k, "X")) <= 1
                              /\ (Holders(k, "X") # {} => Holders(k, "S") = {})
IdleHoldNothing == \A c \in Clients \ busy : held[c] = <<>>
View == <<held, busy>>
=============================================================================
