SPECIFICATION Spec
CONSTANTS
  Kinds = {"tdpos", "xpoa", "single"}
  Periods = {1, 2, 3}
  BlockNums = {1, 2, 3}
  ProposerNums = {1, 2, 3}
  MaxAlt = 3
  MaxTermInt = 4
  XpoaNs = {1, 2, 3, 4}
  InitMs = 3
  InitRems = {0}
  NTerms = 3
  KeepHist = TRUE
  KF_TdposPreInit = FALSE
  KF_XpoaNegativeTs = FALSE
CONSTRAINT Dump
VIEW View
CHECK_DEADLOCK FALSE
