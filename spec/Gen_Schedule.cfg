SPECIFICATION Spec
CONSTANTS
  Kinds = {"tdpos", "xpoa", "single"}
  Periods = {1, 2, 3}
  BlockNums = {1, 2, 3}
  ProposerNums = {1, 2, 3}
  MaxAlt = 3
  MaxTermInt = 4
  XpoaNs = {1, 2, 3, 4}
  InitMs = 3
  InitRems = {0}
  NTerms = 3
  ChainPeriods = {2}
  ChainTermInts = {4}
  Starts = {1, 2}
  NodeAts = {"genesis", "tip"}
  KeepHist = TRUE
  KF_TdposPreInit = FALSE
  KF_XpoaNegativeTs = FALSE
  KF_TdposTermSetOffset = FALSE
CONSTRAINT Dump
VIEW View
CHECK_DEADLOCK FALSE
