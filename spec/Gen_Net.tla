------------------------------ MODULE Gen_Net ------------------------------
(* Behaviour generation for the network of engines: simulate Net and dump each behaviour's history. *)
EXTENDS Net, Json, Randomization
ASSUME JsonSerialize("catalog.json", <<[tx |-> TX, genesis |-> GenesisOuts, award |-> AwardSched, awards |-> [h \in 1..16 |-> AwardAt(h)],
                                        keys |-> SetToSeq(Keys), addrs |-> Addrs]>>)
Dump == Len(hist) < MaxOps \/ (JsonSerialize("out/b_" \o ToString(TLCGet("stats").traces) \o ".json", hist) /\ FALSE)
Pick(k, S) == RandomSubset(IF Cardinality(S) < k THEN Cardinality(S) ELSE k, S)
(* biased towards steps that do something: valid submissions, mining with a non-empty pool, deliveries; a few losses,
   stale submissions, empty blocks and restarts *)
GNNext ==
  /\ Len(hist) < MaxOps
  /\ \/ \E i \in Nodes : \E t \in {t \in Txs : ~OnTip(t, i) /\ t \notin npool[i] /\ Valid(NodeS(i), t, Height(tip[i]))} : NSubmit(i, t, "*")
     \/ \E i \in Pick(1, Nodes) : \E t \in Pick(1, {t \in Txs : ~OnTip(t, i)}) : NSubmit(i, t, "*")
     \/ \E m \in {m \in tmsgs : ~OnTip(m.t, m.to)} : NDeliverTx(m, "*")
     \/ \E m \in Pick(1, tmsgs) : NDropTx(m)
     \/ \E i \in {i \in Nodes : npool[i] # {}} : NMine(i, PrefixFits(GoodOrder(npool[i])))
     \/ \E i \in Pick(1, Nodes) : NMine(i, PrefixFits(GoodOrder(npool[i])))
     \/ \E m \in bmsgs : NDeliverBlk(m, {"*"})
     \/ \E m \in bmsgs : NDeliverBlk(m, {"*"})
     \/ \E m \in Pick(1, bmsgs) : \E x \in Pick(1, {0, 1, 2}) : x = 0 /\ NDropBlk(m)
     \/ \E i \in Pick(1, Nodes) : \E x \in Pick(1, {0, 1, 2}) : x = 0 /\ NRestart(i)
GNSpec == NInit /\ [][GNNext]_nvars
=============================================================================
