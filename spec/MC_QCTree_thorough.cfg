SPECIFICATION Spec
CONSTANTS
  NP = 6
  MaxOps = 100000000
  Pace = FALSE
  KF_OrphanFirstMatchOnly = FALSE
  KF_StaleMarkers = FALSE
INVARIANTS TypeOK TreeOK StoredOnce OrphansOK MarkersOK
PROPERTIES HighMonotone RootMoves PaceMonotone
VIEW ViewVars
CHECK_DEADLOCK FALSE
