SPECIFICATION Spec
CONSTANTS
  NP = 4
  MaxOps = 100000000
  Pace = TRUE
  KF_OrphanFirstMatchOnly = FALSE
  KF_StaleMarkers = FALSE
INVARIANTS TypeOK TreeOK StoredOnce OrphansOK MarkersOK
PROPERTIES HighMonotone RootMoves PaceMonotone
VIEW ViewVars
CHECK_DEADLOCK FALSE
