--------------------------- MODULE Gen_SchedulePow ---------------------------
(* Case generation for the proof-of-work part: TLC enumerates every chain of the box (every sequence *)
(* of block intervals) and the compact sweep, and writes each complete walk's history.             *)
EXTENDS SchedulePow, Json
RECURSIVE DSeq(_, _)
DSeq(ch, h) == IF h > Len(ch) THEN ""
              ELSE LET d == ch[h].q - Q(ch, h - 1) IN
                   (IF d = 1 THEN "1" ELSE IF d = 4 * pc.period THEN "2" ELSE "3") \o DSeq(ch, h + 1)
WalkId == ToString(IF pc.mode = "btc" THEN 1 ELSE IF pc.mode = "legacy" THEN 2 ELSE 3) \o ToString(pc.gap) \o DSeq(chain, 1)
(* the walks carry the block intervals only: what the candidates declare and how they are judged is recorded from  *)
(* the real code and computed by the trace specification (68 candidates per step would triple the generation time)  *)
GenNext == (\E d \in Deltas(pc) : MineW(d, <<>>, FALSE)) \/ CompactStep
GenSpec == Init /\ [][GenNext]_vars
Dump == Done => JsonSerialize("out/b_" \o WalkId \o ".json", hist)
=============================================================================
