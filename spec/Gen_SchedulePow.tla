--------------------------- MODULE Gen_SchedulePow ---------------------------
(* Case generation for the proof-of-work part: TLC enumerates every chain of the box (every sequence *)
(* of block intervals) and the compact sweep, and writes each complete walk's history.             *)
EXTENDS SchedulePow, Json
RECURSIVE DSeq(_, _)
DSeq(ch, h) == IF h > Len(ch) THEN "" ELSE ToString((ch[h].q - Q(ch, h - 1)) % 7) \o DSeq(ch, h + 1)
WalkId == ToString(IF pc.mode = "btc" THEN 1 ELSE IF pc.mode = "legacy" THEN 2 ELSE 3) \o ToString(pc.gap) \o DSeq(chain, 1)
Dump == Done => JsonSerialize("out/b_" \o WalkId \o ".json", hist)
=============================================================================
