SPECIFICATION SSpecMC
CONSTANTS
  NP = 5
  MaxOps = 100000000
  Pace = TRUE
  MaxLevel = 5
  NVoters = 2
  KF_OrphanFirstMatchOnly = FALSE
  KF_StaleMarkers = FALSE
INVARIANTS TypeOK TreeOK StoredOnce OrphansOK MarkersOK
PROPERTIES SHighMonotone SRootMoves SPaceMonotone
VIEW SViewVars
CONSTRAINT LevelBound
CHECK_DEADLOCK FALSE
