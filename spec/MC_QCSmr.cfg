SPECIFICATION SSpecMC
CONSTANTS
  NP = 4
  MaxOps = 100000000
  Pace = TRUE
  NVoters = 2
  KF_OrphanFirstMatchOnly = FALSE
  KF_StaleMarkers = FALSE
INVARIANTS TypeOK TreeOK StoredOnce OrphansOK MarkersOK
PROPERTIES SHighMonotone SRootMoves SPaceMonotone
VIEW SViewVars
CHECK_DEADLOCK FALSE
