------------------------- MODULE Trace_SchedulePow -------------------------
(* Trace validation of the proof-of-work part: recorded mining steps (the miner's target from        *)
(* ProcessBeforeMiner, CheckMinerMatch of the mined block and of every candidate of the list) and   *)
(* recorded compact conversions must equal the specification's; a step that only the known         *)
(* deviation explains is accepted if the deviation is enabled and noted in dev.                    *)
EXTENDS SchedulePow, Json
VARIABLES l, div, dev
Trace == ndJsonDeserialize("trace.ndjson")
NoDiv == [at |-> 0]
tvars == <<vars, l, div, dev>>

TInit == Init /\ l = 1 /\ div = NoDiv /\ dev = {} /\ TLCSet(1, 1) /\ TLCSet(2, NoDiv) /\ TLCSet(3, {})

(* expected observation of a mining step under the IDEAL rule (gp = FALSE) / the deviation (gp = TRUE) *)
MineObs(ev, gp) == [bits |-> ExpectedBits(pc, chain, Len(chain) + 1, gp), res |-> "ok",
                    \* the candidates submitted at this step: none, the tip candidates (a prefix of the list), or all
                    acc |-> IF ev.acc = <<>> THEN <<>> ELSE CandAccN(pc, chain, side, ev.cb, gp, Len(ev.acc))]
MineAct(ev) == [bits |-> ev.bits, res |-> ev.res, acc |-> ev.acc]

(* ud: this step needs the known deviation *)
Act(ev, ud) ==
  CASE ev.op = "reset"   -> Reset
    [] ev.op = "cfg"     -> SetCfg(ev.cfg)
    [] ev.op = "side"    -> SetSide(ev.blocks)       \* the side branch the real ledger has stored, as read back from it
    [] ev.op = "mine"    -> MineW(ev.d, ev.cb, ud)
    [] ev.op = "compact" -> Compact(ev.c)

TStep ==
  /\ l <= Len(Trace) /\ div = NoDiv
  /\ LET ev == Trace[l]
         act == CASE ev.op = "mine" -> MineAct(ev)
                  [] ev.op = "compact" -> ev.res
                  [] OTHER -> [none |-> 0]
         expI == CASE ev.op = "mine" -> MineObs(ev, FALSE)
                   [] ev.op = "compact" -> CompactRes(ev.c)
                   [] OTHER -> [none |-> 0]
         ud == ev.op = "mine" /\ KF_PowGrandparentBits /\ act # expI /\ act = MineObs(ev, TRUE)
     IN /\ Act(ev, ud)
        /\ div' = IF act = expI \/ ud THEN NoDiv
                  ELSE [at |-> l, tr |-> ev.tr, op |-> ev.op, expres |-> "see expected", actres |-> "see actual",
                        exp |-> expI, act |-> act]
        /\ dev' = IF ud THEN dev \cup {"pow-grandparent-target"} ELSE dev
  /\ l' = l + 1
TSpec == TInit /\ [][TStep]_tvars

Book ==
  /\ (div = NoDiv /\ l > TLCGet(1)) => (TLCSet(1, l) /\ TLCSet(3, dev))
  /\ (div # NoDiv /\ (TLCGet(2) = NoDiv \/ TLCGet(2).at < div.at)) => TLCSet(2, div)
Post == JsonSerialize("result.json", <<[hw |-> TLCGet(1), len |-> Len(Trace), div |-> TLCGet(2),
                                        dev |-> SetToSeq(TLCGet(3))]>>)
=============================================================================
