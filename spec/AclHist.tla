------------------------------ MODULE AclHist ------------------------------
(***************************************************************************)
(* C11, second sentence: "Changing an existing account's rule or a         *)
(* contract method's rule requires satisfying the owning account's rule    *)
(* currently in force on the confirmed chain."                             *)
(*                                                                         *)
(* History model of the rule tables (XCAccount, XCContract,                *)
(* XCContract2Account) as State.VerifyTx sees them: every rule has a       *)
(* CONFIRMED value (what acl.Manager reads through the tip snapshot) and a *)
(* PENDING value (confirmed + the pool, what a pre-execution reads).       *)
(* Transactions: NewAccount, SetAccountAcl, SetMethodAcl of the $acl       *)
(* kernel contract, the binding of a contract to its owning account, a     *)
(* call of the contract method, a transfer out of an account's funds, and  *)
(* Mine (the pool becomes confirmed).                                      *)
(* Rule r in 1..3 means "key Kr alone" (weight 1, accept 1); rule          *)
(* evaluation itself is Acl!Sat (checked exhaustively in Acl.tla).         *)
(*                                                                         *)
(* Signers: a rule change of account a is signed by key k and presented    *)
(* as the URI a/Kk (via = 0) or a/Kvia/Kk (via # 0: a key named on the     *)
(* way).  So a change can be signed by the holder of the confirmed (old)   *)
(* rule, of the new rule, of a pending rule, or by a stranger.             *)
(*                                                                         *)
(* Deviations (ACTUAL):                                                    *)
(*  KF_IntermediateAKCounts   as in Acl.tla, seen through VerifyTx.        *)
(*  KF_UnconfirmedAccountOpen an account that has no rule on the confirmed *)
(*      chain yet (created by a transaction still in the pool) is treated  *)
(*      as satisfied by anyone: SetAccountAcl by a stranger is admitted    *)
(*      before the creating transaction is confirmed (likewise the method  *)
(*      rules of a contract bound to such an account).                     *)
(***************************************************************************)
EXTENDS Integers, Sequences, FiniteSets, TLC

CONSTANTS KF_IntermediateAKCounts, KF_UnconfirmedAccountOpen,
          MaxOps          \* bound on the number of operations of a behaviour

VARIABLES conf,    \* account -> rule in force on the confirmed chain (0 = the account does not exist there)
          pend,    \* account -> rule after the pool (= conf if nothing is pending)
          mconf, mpend,   \* the same for the rule of the contract method (0 = no rule)
          m2conf, m2pend, \* the same for the method of a second contract, bound to account A2 from the start
          own,     \* binding contract -> owning account A1: "none", "pending" (latest write in the pool), "confirmed"
          viol,    \* ghost: admitted rule changes that the rule in force on the confirmed chain did not authorise
          hist
vars == <<conf, pend, mconf, mpend, m2conf, m2pend, own, viol, hist>>

A == INSTANCE Acl WITH sl <- 1, e <- 1, sg <- <<>>, hist <- <<>>, MaxSigners <- 1, NestedChoices <- 1, WithNegative <- FALSE

Accts == {"A1", "A2"}
Owner == "A1"
KeyIds == 1..3
KeyName(k) == "K" \o ToString(k)
RuleRec(r) == IF r = 0 THEN A!NoRule ELSE A!TRule(2, [n \in {KeyName(r)} |-> 2])
(* the rules acl.Manager answers with: the confirmed ones *)
ConfEnv == A!Env(RuleRec(conf["A1"]), RuleRec(conf["A2"]), A!NoRule, RuleRec(mconf))
Uri(a, k, via) == IF via = 0 THEN <<a, KeyName(k)>> ELSE <<a, KeyName(via), KeyName(k)>>

(* the property: the rule of account a in force on the confirmed chain exists and is satisfied *)
Authorised(kf, a, uri) == conf[a] # 0 /\ A!Sat(kf, ConfEnv, a, <<uri>>)
(* what verifyRWSetPermission admits in ACTUAL beyond that *)
Admitted(a, uri) == \/ Authorised(KF_IntermediateAKCounts, a, uri)
                    \/ (conf[a] = 0 /\ KF_UnconfirmedAccountOpen)
(* the outcomes of a rule change: the IDEAL one; with a deviation enabled also the deviating one (a named  *)
(* deviation is a disjunct: a tree in which the defect is repaired is still explained, without using it)  *)
Outcomes(exists, a, uri) ==
  IF ~exists THEN {"pre_fail"}
  ELSE {IF Authorised(FALSE, a, uri) THEN "accept" ELSE "reject"} \cup (IF Admitted(a, uri) THEN {"accept"} ELSE {})

S0 == [conf |-> [a \in Accts |-> 0], pend |-> [a \in Accts |-> 0]]
Init == /\ conf = S0.conf /\ pend = S0.pend /\ mconf = 0 /\ mpend = 0 /\ m2conf = 0 /\ m2pend = 0 /\ own = "none" /\ viol = {} /\ hist = <<>>
Reset == /\ conf' = S0.conf /\ pend' = S0.pend /\ mconf' = 0 /\ mpend' = 0 /\ m2conf' = 0 /\ m2pend' = 0 /\ own' = "none" /\ viol' = {} /\ hist' = <<>>
Log(ev) == hist' = Append(hist, ev)

(* $acl.NewAccount(a, rule r) sent by key k.  The contract refuses an account that exists (pool included). *)
(* Creating an account is not "changing an existing account's rule": nothing to satisfy.                   *)
New(a, r, k) ==
  LET res == IF pend[a] # 0 THEN "pre_fail" ELSE "accept" IN
  /\ pend' = IF res = "accept" THEN [pend EXCEPT ![a] = r] ELSE pend
  /\ UNCHANGED <<conf, mconf, mpend, m2conf, m2pend, own, viol>>
  /\ Log([op |-> "new", a |-> a, r |-> r, k |-> k, res |-> res])

(* $acl.SetAccountAcl(a, rule r) with AuthRequire = [Uri(a, k, via)], signed by key k *)
Set(a, r, k, via) ==
  LET uri == Uri(a, k, via) IN
  \E res \in Outcomes(pend[a] # 0, a, uri) :
    /\ pend' = IF res = "accept" THEN [pend EXCEPT ![a] = r] ELSE pend
    /\ viol' = IF res = "accept" /\ ~Authorised(FALSE, a, uri) THEN viol \cup {"account"} ELSE viol
    /\ UNCHANGED <<conf, mconf, mpend, m2conf, m2pend, own>>
    /\ Log([op |-> "set", a |-> a, r |-> r, k |-> k, via |-> via, res |-> res])

(* the contract is bound to its owning account (write of XCContract2Account, as a deployment does); *)
(* the property does not speak about it: permitted iff the owner's rule is satisfied or it has none  *)
Bind(k) ==
  LET res == IF conf[Owner] = 0 \/ A!Sat(KF_IntermediateAKCounts, ConfEnv, Owner, <<Uri(Owner, k, 0)>>) THEN "accept" ELSE "reject" IN
  /\ own' = IF res = "accept" THEN "pending" ELSE own
  /\ UNCHANGED <<conf, pend, mconf, mpend, m2conf, m2pend, viol>>
  /\ Log([op |-> "bind", k |-> k, res |-> res])

(* $acl.SetMethodAcl(contract, method, rule r) with AuthRequire = [Uri(Owner, k, via)], signed by k: *)
(* the binding must be confirmed and the owning account's confirmed rule satisfied                   *)
SetM(r, k, via) ==
  LET uri == Uri(Owner, k, via) IN
  \E res \in (IF own = "confirmed" THEN Outcomes(TRUE, Owner, uri) ELSE {"reject"}) :
    /\ mpend' = IF res = "accept" THEN r ELSE mpend
    /\ viol' = IF res = "accept" /\ ~Authorised(FALSE, Owner, uri) THEN viol \cup {"method"} ELSE viol
    /\ UNCHANGED <<conf, pend, mconf, m2conf, m2pend, own>>
    /\ Log([op |-> "setm", r |-> r, k |-> k, via |-> via, res |-> res])

(* ONE transaction with two $acl.SetMethodAcl requests: the method of the contract owned by A1 and the method of the  *)
(* second contract, owned by A2 (ord = which request comes first), AuthRequire = [Uri(A1, k, via)], signed by k.      *)
(* Every record of the write set needs ITS owning account's confirmed rule satisfied.                                 *)
SetM2(r, k, via, ord) ==
  LET uri == Uri(Owner, k, via)
      ideal == own = "confirmed" /\ Authorised(FALSE, "A1", uri) /\ Authorised(FALSE, "A2", uri)
      actual == own = "confirmed" /\ Admitted("A1", uri) /\ Admitted("A2", uri) IN
  \E res \in {IF ideal THEN "accept" ELSE "reject"} \cup (IF actual THEN {"accept"} ELSE {}) :
    /\ mpend' = IF res = "accept" THEN r ELSE mpend
    /\ m2pend' = IF res = "accept" THEN r ELSE m2pend
    /\ viol' = IF res = "accept" /\ ~ideal THEN viol \cup {"method"} ELSE viol
    /\ UNCHANGED <<conf, pend, mconf, m2conf, own>>
    /\ Log([op |-> "setm2", r |-> r, k |-> k, via |-> via, ord |-> ord, res |-> res])

(* a call of the contract method sent and signed by key k: the method rule in force on the confirmed chain *)
Call(k) ==
  LET res == IF A!Sat(KF_IntermediateAKCounts, ConfEnv, "M", << <<KeyName(k)>> >>) THEN "accept" ELSE "reject" IN
  /\ UNCHANGED <<conf, pend, mconf, mpend, m2conf, m2pend, own, viol>>
  /\ Log([op |-> "call", k |-> k, res |-> res])

(* a transfer out of account a's funds (verifyUTXOPermission) with AuthRequire = [Uri(a, k, via)], signed by k: *)
(* the account must exist on the confirmed chain and its rule in force there must be satisfied               *)
Spend(a, k, via) ==
  LET uri == Uri(a, k, via) IN
  \E res \in {IF Authorised(FALSE, a, uri) THEN "accept" ELSE "reject"}
               \cup (IF Authorised(KF_IntermediateAKCounts, a, uri) THEN {"accept"} ELSE {}) :
    /\ viol' = IF res = "accept" /\ ~Authorised(FALSE, a, uri) THEN viol \cup {"spend"} ELSE viol
    /\ UNCHANGED <<conf, pend, mconf, mpend, m2conf, m2pend, own>>
    /\ Log([op |-> "spend", a |-> a, k |-> k, via |-> via, res |-> res])

(* a block confirms the pool *)
Mine ==
  /\ conf' = pend /\ mconf' = mpend /\ m2conf' = m2pend
  /\ own' = IF own = "pending" THEN "confirmed" ELSE own
  /\ UNCHANGED <<pend, mpend, m2pend, viol>>
  /\ Log([op |-> "mine", res |-> "ok"])

Next == /\ Len(hist) < MaxOps
        /\ \/ \E a \in Accts, r \in KeyIds, k \in KeyIds : New(a, r, k)
           \/ \E a \in Accts, r \in KeyIds, k \in KeyIds, via \in {0} \cup KeyIds : Set(a, r, k, via)
           \/ \E k \in KeyIds : Bind(k)
           \/ \E r \in KeyIds, k \in KeyIds, via \in {0} \cup KeyIds : SetM(r, k, via)
           \/ \E r \in KeyIds, k \in KeyIds, via \in {0} \cup KeyIds, ord \in {1, 2} : SetM2(r, k, via, ord)
           \/ \E k \in KeyIds : Call(k)
           \/ \E a \in Accts, k \in KeyIds, via \in {0} \cup KeyIds : Spend(a, k, via)
           \/ Mine
Spec == Init /\ [][Next]_vars
View == <<conf, pend, mconf, mpend, m2conf, m2pend, own, viol>>

Obs == [conf |-> conf, pend |-> pend, mconf |-> mconf, mpend |-> mpend, m2conf |-> m2conf, m2pend |-> m2pend, own |-> own]

TypeOK == /\ conf \in [Accts -> 0..3] /\ pend \in [Accts -> 0..3] /\ mconf \in 0..3 /\ mpend \in 0..3 /\ m2conf \in 0..3 /\ m2pend \in 0..3
          /\ own \in {"none", "pending", "confirmed"} /\ viol \subseteq {"account", "method", "spend"}
(* the property (IDEAL): no admitted change without the confirmed rule of the owning account satisfied *)
ChangesAuthorised == viol = {}
(* a confirmed rule only ever becomes what the pool held; an account never disappears *)
ConfirmedFromPool == [][\A a \in Accts : conf'[a] # conf[a] => conf'[a] = pend[a]]_vars
NoDisappear == \A a \in Accts : conf[a] # 0 => pend[a] # 0
=============================================================================
