SPECIFICATION GenSpec
CONSTANTS
  N1 = 3
  N2 = 1
  NT = 1
  Vals = {"p", "q"}
  Limits = {0, 1, 2, 9}
  NU = 2
  TW = 0
  MaxOps = 8
  KeepHist = TRUE
  EdgeBounds = TRUE
  KF_ScanYieldsOwnDelete = FALSE
  KF_ScanYieldsReadMissingKey = FALSE
  KF_ScanInvertedRangePanics = FALSE
  KF_ScanOpenEndSkipsBacking = FALSE
CONSTRAINT Dump
CHECK_DEADLOCK FALSE
