\* random schedules of scenarios of three requests and the hand-picked scenarios of four (-simulate)
SPECIFICATION GenSpec
CONSTANTS
  KF_SharedLockRefCountRace = TRUE
  Sizes = {3}
  KvPool <- KvPoolFull
  TokPool <- TokPoolFull
  MixPool <- MixPoolFull
  Extra <- FourProc
  GFirst = TRUE
  SelDet = TRUE
  RecSteps = FALSE
  LogOn = TRUE
  POR = FALSE
CONSTRAINT DumpSim
CHECK_DEADLOCK FALSE
