---------------------------- MODULE Trace_Sandbox ----------------------------
(***************************************************************************)
(* Trace validation for C10.  One program contributes the lines            *)
(*   reset, init(backing state), call_1 .. call_n, rwset,                  *)
(*   replay(read set of the first run), call_1 .. call_n, rwset            *)
(* recorded from the real sandbox: first over the real XModel, then over   *)
(* XMReaderFromRWSet / NewUTXOReaderFromInput of the first run's sets.     *)
(*                                                                         *)
(* Every call line carries the result (res, items) and the read / write    *)
(* set read back after the call (obs.rset, obs.wset).  A line is explained *)
(* iff  (a) res / items equal the specification's result for that backing  *)
(*          state (IDEAL: the semantic result),                            *)
(*      (b) the recorded read set is SOUND (Sandbox!RSetOkX: a constraint, *)
(*          not a pin) and the write set is the final value per written    *)
(*          key,                                                           *)
(*      (c) in the replay run: res / items also equal what the first run   *)
(*          recorded for the same call, and the final write set and utxo   *)
(*          sets equal the first run's (the property's own oracle).        *)
(* Transfers: a call line carries the inputs the transfer took (sel, each   *)
(* [own, i, amt]: which utxo of which sender) and the outputs it produced  *)
(* (outs).  First run: the result is "err" iff the amount is zero or the   *)
(* sender's free utxos do not cover it; a successful transfer took         *)
(* distinct free utxos of the sender covering the amount (which ones and   *)
(* in which order is the reader's business) and produced the payment and   *)
(* the change.  Replay run: the specification's reader over the recorded   *)
(* inputs gives the result and the inputs; both also have to equal the     *)
(* first run's, transfer by transfer.                                      *)
(* With KF_* deviations enabled (c) tolerates a difference only at a scan  *)
(* in which one of the enabled deviations changed the result in either     *)
(* run; the deviations used are collected in dev.                          *)
(***************************************************************************)
EXTENDS Sandbox, Json
VARIABLES l, div, dev, prev, fin1
Trace == ndJsonDeserialize("trace.ndjson")
NoDiv == [at |-> 0]
NoFin == [rset |-> <<>>, wset |-> <<>>, uin |-> <<>>, uout |-> <<>>]
tvars == <<vars, l, div, dev, prev, fin1>>

TInit == Init /\ l = 1 /\ div = NoDiv /\ dev = {} /\ prev = <<>> /\ fin1 = NoFin
         /\ TLCSet(1, 1) /\ TLCSet(2, NoDiv) /\ TLCSet(3, {})

KeysOfRSet(rs) == {<<rs[i].b, rs[i].n>> : i \in 1..Len(rs)} \cap Keys
BkOf(s) == [k \in Keys |-> s[CHOOSE i \in 1..Len(s) : s[i].b = k[1] /\ s[i].n = k[2]].st]
Act(ev) ==
  CASE ev.op = "reset"    -> Reset
    [] ev.op = "init"     -> Start(BkOf(ev.bk), ev.pool)
    [] ev.op = "get"      -> Get(<<ev.b, ev.n>>)
    [] ev.op = "put"      -> Put(<<ev.b, ev.n>>, ev.v)
    [] ev.op = "del"      -> Del(<<ev.b, ev.n>>)
    \* the input cache after a scan is the recorded one (look-ahead reads included): it is an observable
    \* (RWSet().RSet), constrained by RSetOkX, and what later scans of ACTUAL depend on
    [] ev.op = "select"   -> Select(ev.b, ev.lo, ev.hi, ev.lim, LAMBDA nd : {KeysOfRSet(ev.obs.rset)})
    \* first run: the selection is the recorded one (judged by SelOk); replay run: the specification's own
    [] ev.op = "transfer" -> Transfer(ev.from, ev.to, ev.amt, LAMBDA free, amt : {ev.sel}, ev.res = "ok")
    [] ev.op = "rwset"    -> Finish
    [] ev.op = "replay"   -> Replay(ev.rset, ev.uin)

IsCall(ev) == ev.op \in {"get", "put", "del", "select", "transfer"}
(* R3: the property does not say whether an inverted range is an error or an empty scan *)
ResOk(op, exp, act) == exp = act \/ (op = "select" /\ exp = "err" /\ act = "ok")
BagEq(s, t) == Len(s) = Len(t) /\ \A i \in 1..Len(s) : Cardinality({j \in 1..Len(s) : s[j] = s[i]}) = Cardinality({j \in 1..Len(t) : t[j] = s[i]})

(* a transfer line: the inputs taken and the outputs produced *)
SelOf(ev) == IF ev.op = "transfer" THEN ev.sel ELSE <<>>
OutsOf(ev) == IF ev.op = "transfer" THEN ev.outs ELSE <<>>
SelOk(ev) == ev.op = "transfer" =>
               /\ LastEv.sel = ev.sel /\ BagEq(LastEv.outs, ev.outs)
               /\ (mode = "xm" /\ ev.res = "ok") => CoveringSel(pool, uin, ev.from, ev.amt, ev.sel)
(* (a) + (b) for a call line *)
CallOk(ev) == /\ ResOk(ev.op, LastEv.res, ev.res) /\ LastEv.items = ev.items /\ SelOk(ev)
              /\ RSetOkX(bk', req', out', mode', ev.obs.rset)
              /\ ev.obs.wset = WSetSeq(out')
(* (c) for a call line of the replay run *)
Agrees(ev)   == /\ prev[nops'].res = ev.res /\ prev[nops'].items = ev.items
                /\ prev[nops'].sel = SelOf(ev) /\ prev[nops'].outs = OutsOf(ev)
Excused(ev)  == ev.op = "select" /\ (prev[nops'].dv \cup LastEv.dv) # {}
ReplayOk(ev) == mode' = "rs" => (nops' <= Len(prev) /\ (Agrees(ev) \/ Excused(ev)))
(* the final line of a run: read / write set after Flush, utxo sets, transient utxo records decoded *)
FinOk(ev) == /\ RSetOkX(bk', req', out', mode', ev.rset)
             /\ ev.wset = WSetSeq(out')
             /\ ev.uin = uin' /\ BagEq(ev.uout, uout')      \* the order of the utxo outputs is not the property's business ...
             /\ ev.tuin = ev.uin /\ ev.tuout = ev.uout      \* Flush wrote exactly the utxo sets into the transient bucket
             \* ... but the replay has to reproduce it exactly (it is part of the write set)
             /\ mode' = "rs" => (ev.wset = fin1.wset /\ ev.uout = fin1.uout /\ ev.uin = fin1.uin /\ nops' = Len(prev))
(* the verification environment could be built from the declared sets (State.GenRWSetFromTx accepted the *)
(* versions) and holds the read set of the first run, each record as the backing state has it          *)
RepOk(ev) == /\ ev.res = "ok"
             /\ RSetOkX(bk, req, out, mode, ev.rset)
             /\ ev.rset = fin1.rset /\ ev.uin = fin1.uin
Good(ev) == CASE IsCall(ev)       -> CallOk(ev) /\ ReplayOk(ev)
              [] ev.op = "rwset"  -> FinOk(ev)
              [] ev.op = "replay" -> RepOk(ev)
              [] OTHER            -> TRUE

TStep ==
  /\ l <= Len(Trace) /\ div = NoDiv
  /\ LET ev == Trace[l] IN
     /\ Act(ev)
     /\ prev' = IF ev.op = "reset" THEN <<>>
                ELSE IF IsCall(ev) /\ mode' = "xm" THEN Append(prev, [res |-> ev.res, items |-> ev.items, dv |-> LastEv.dv, sel |-> SelOf(ev), outs |-> OutsOf(ev)])
                ELSE prev
     /\ fin1' = IF ev.op = "reset" THEN NoFin
                ELSE IF ev.op = "rwset" /\ mode' = "xm" THEN [rset |-> ev.rset, wset |-> ev.wset, uin |-> ev.uin, uout |-> ev.uout]
                ELSE fin1
     /\ dev' = IF IsCall(ev) THEN dev \cup LastEv.dv ELSE dev
     /\ div' = IF Good(ev) THEN NoDiv
               ELSE [at |-> l, tr |-> ev.tr, op |-> ev.op,
                     expres |-> IF IsCall(ev) THEN LastEv.res ELSE "ok", actres |-> ev.res,
                     exp |-> [items |-> IF IsCall(ev) THEN LastEv.items ELSE <<>>, wset |-> WSetSeq(out'),
                              rset_must_include |-> KeySeq(req'), mode |-> mode',
                              utxo |-> IF ev.op = "rwset" THEN [uin |-> uin', uout |-> uout']
                                       ELSE IF ev.op = "transfer" THEN [uin |-> LastEv.sel, uout |-> LastEv.outs]
                                       ELSE [uin |-> <<>>, uout |-> <<>>],
                              first_run |-> IF IsCall(ev) /\ mode' = "rs" /\ nops' <= Len(prev)
                                            THEN [res |-> prev[nops'].res, items |-> prev[nops'].items, sel |-> prev[nops'].sel, outs |-> prev[nops'].outs]
                                            ELSE IF ev.op = "rwset" /\ mode' = "rs" THEN [res |-> "ok", items |-> <<>>, wset |-> fin1.wset, uout |-> fin1.uout]
                                            ELSE [res |-> "", items |-> <<>>]],
                     act |-> [mode |-> mode',
                              first_run |-> IF IsCall(ev) /\ mode' = "rs" /\ nops' <= Len(prev)
                                            THEN [res |-> prev[nops'].res, items |-> prev[nops'].items, sel |-> prev[nops'].sel, outs |-> prev[nops'].outs]
                                            ELSE IF ev.op = "rwset" /\ mode' = "rs" THEN [res |-> "ok", items |-> <<>>, wset |-> fin1.wset, uout |-> fin1.uout]
                                            ELSE [res |-> "", items |-> <<>>],
                              items |-> IF IsCall(ev) THEN ev.items ELSE <<>>,
                              wset |-> IF IsCall(ev) THEN ev.obs.wset ELSE IF ev.op = "rwset" THEN ev.wset ELSE <<>>,
                              rset |-> IF IsCall(ev) THEN ev.obs.rset ELSE IF ev.op \in {"rwset", "replay"} THEN ev.rset ELSE <<>>,
                              utxo |-> IF ev.op = "rwset" THEN [uin |-> ev.uin, uout |-> ev.uout, tuin |-> ev.tuin, tuout |-> ev.tuout]
                                       ELSE IF ev.op = "transfer" THEN [uin |-> ev.sel, uout |-> ev.outs]
                                       ELSE [uin |-> <<>>, uout |-> <<>>]]]
  /\ l' = l + 1
TSpec == TInit /\ [][TStep]_tvars

(* bookkeeping in TLC registers (-workers 1): 1 = highest line index reached without divergence,   *)
(* 2 = divergence with the longest explained prefix, 3 = deviations used                            *)
Book ==
  /\ (div = NoDiv /\ l > TLCGet(1)) => TLCSet(1, l)
  /\ (div # NoDiv /\ (TLCGet(2) = NoDiv \/ TLCGet(2).at < div.at)) => TLCSet(2, div)
  /\ TLCSet(3, TLCGet(3) \cup dev)
Post == JsonSerialize("result.json", <<[hw |-> TLCGet(1), len |-> Len(Trace), div |-> TLCGet(2), dev |-> TLCGet(3)]>>)
=============================================================================
