SPECIFICATION DispSpec
CONSTANTS
  NP = 1
  MaxCalls = 12
  NFull = 4
  MaxOps = 100000
  LogOn = TRUE
  U = "gen"
  KF_DispatchReadsTableUnlocked = FALSE
  KF_EmptyPayloadUndecodable = FALSE
  KF_KeyConcatAmbiguous = FALSE
CONSTRAINT Dump
CHECK_DEADLOCK FALSE
