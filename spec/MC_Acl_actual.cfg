SPECIFICATION Spec
CONSTANTS
  KF_IntermediateAKCounts = TRUE
  MaxSigners = 3
  NestedChoices = 2
  WithNegative = FALSE
  MaxOps = 100
INVARIANTS TypeOK EvalEqSat
VIEW View
CHECK_DEADLOCK FALSE
