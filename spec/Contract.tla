------------------------------ MODULE Contract ------------------------------
(***************************************************************************)
(* C09 - contract effects: what was pre-executed is what is verified and   *)
(* committed.  The layer above Sandbox.tla (C10):                          *)
(*                                                                         *)
(*   PreExec   kernel/engines/xuperos/chain.go PreExec: the requests run   *)
(*             in a sandbox over the LIVE state; the response carries the  *)
(*             read set (with versions), the write set, events and         *)
(*             contract-originated utxo inputs / outputs (both also in the *)
(*             transient bucket of the write set), per-request resource    *)
(*             use (returned as the request's limits) and the gas used     *)
(*   (client)  assembles the transaction from the response: inputs ext,    *)
(*             outputs ext, requests with limits, '$' fee output = gas,    *)
(*             output to the contract = request amount, the contract's     *)
(*             utxo inputs / outputs among its own - and may tamper        *)
(*   Verify    state/tx_verification.go: verifyContractTxAmount,           *)
(*             verifyUTXOPermission, verifyTxRWSets = declared versions    *)
(*             current (GenRWSetFromTx), '$' output >= gas of the declared *)
(*             limits, the requests re-run in a sandbox over the DECLARED  *)
(*             read set only (XMReaderFromRWSet / NewUTXOReaderFromInput)  *)
(*             under the declared limits, write sets equal                 *)
(*   Commit    State.DoTx: utxo balance, xmodel verifyInputs /             *)
(*             verifyOutputs, updateExtUtxo of the non-transient writes    *)
(*                                                                         *)
(* A program is a sequence of steps of the harness's own kernel contract   *)
(* (harness/cmd/c09/contract.go).  Every value written and every event     *)
(* body contains the accumulator of everything read so far, so a run that  *)
(* reads anything different produces a different write set.                *)
(*                                                                         *)
(* State of one case: kv (key -> value, version; version "none" = never    *)
(* written, value "-" = absent), bal (initiator a, contract c, the         *)
(* contract's vault v, recipient x), the program, the pre-execution        *)
(* response, another client's interleaved write (il), the submitted        *)
(* transaction with its outcome (sub).                                     *)
(*                                                                         *)
(* The declared write set of a transaction is a LIST of records (a record  *)
(* may be repeated, replaced by a copy of another one, appended, reordered,*)
(* re-labelled to another contract's bucket); verification compares it     *)
(* with the executed set as a collection of records, the commit applies    *)
(* the records in order.  What a commit stored is observed by four         *)
(* readers (Obs): the executing node (warm version cache), a node that has *)
(* only the stored data, a range read on each, and the write record each   *)
(* stored version (transaction, offset) refers to.                         *)
(*                                                                         *)
(* IDEAL = all KF_* FALSE: the invariants of the property hold.  Each KF_* *)
(* switches one clause to what the code does instead (DESIGN section 4).   *)
(***************************************************************************)
EXTENDS Integers, Sequences, FiniteSets, TLC, SequencesExt, FiniteSetsExt

CONSTANTS NK,            \* keys 1..NK ("k1".."k3") of the contract's bucket
          NU,            \* utxos (each worth UAmt) of the contract's vault
          MaxSteps,      \* steps per program
          Vals,          \* values a program writes
          XferAmts,      \* amounts of contract transfers
          UseAmts,       \* amounts of resource use
          StepOps,       \* kinds of steps generated
          TamperKinds,   \* kinds of tampering generated
          Amts,          \* amounts sent to the contract with the request
          KeepHist,      \* TRUE: hist is the whole history; FALSE: only the last event (model checking)
          KF_ContractUtxoUnbound,    \* the transaction's real utxo inputs / outputs are never compared with the contract's
          KF_FailedStatusAccepted,   \* a call that ends with status >= 400 (no Go error) verifies and commits its partial writes
          KF_NestedUseUncounted      \* resource use of a nested call is not part of a kernel contract's use

VARIABLES phase, kv, bal, prog, amt, resp, il, tkind, sub, hist
vars == <<phase, kv, bal, prog, amt, resp, il, tkind, sub, hist>>

Keys == 1..NK
UAmt == 2
IniFunds == 100
CpuUnit == 600           \* "use c n" consumes n * 600 cpu units; gas price: cpu_rate 1000, xfee_rate 1
Inf == 1000000000        \* stands for contract.MaxLimits (0xFFFFFFFF; TLC integers are 32 bit)
NoWrite == "~"
DelMark == "D"
Absent == "-"
Undecl == "undecl"
Never == [val |-> Absent, ver |-> "none"]
Gas(c, x) == (c + 999) \div 1000 + x

Flags == [unbound |-> KF_ContractUtxoUnbound, st500 |-> KF_FailedStatusAccepted, nested |-> KF_NestedUseUncounted]
Ideal == [unbound |-> FALSE, st500 |-> FALSE, nested |-> FALSE]
KFName(d) == CASE d = "unbound" -> "KF_ContractUtxoUnbound" [] d = "st500" -> "KF_FailedStatusAccepted" [] d = "nested" -> "KF_NestedUseUncounted"

(* ------------------------------------------------------------------ programs ------- *)
St(op, n, v, a, b, s) == [op |-> op, n |-> n, v |-> v, a |-> a, b |-> b, sub |-> s]
(* the programs the second contract can be called with (the field sub of a call step is an index) *)
SubProgs == <<
  <<St("put", 1, "q", 0, 0, 0)>>,
  <<St("get", 2, "", 0, 0, 0), St("put", 3, "q", 0, 0, 0)>>,
  <<St("del", 2, "", 0, 0, 0)>>,
  <<St("use", 0, "x", 2, 0, 0)>>,
  <<St("use", 0, "c", 1, 0, 0), St("emit", 0, "f", 0, 0, 0)>>,
  <<St("xfer", 0, "", 1, 0, 0)>>,
  <<St("put", 2, "q", 0, 0, 0), St("fail", 0, "", 0, 0, 0)>> >>
Ranges == {r \in Keys \X (2..(NK + 1)) : r[1] < r[2]}
AllSteps ==
  {St("get", n, "", 0, 0, 0) : n \in Keys} \cup {St("put", n, v, 0, 0, 0) : n \in Keys, v \in Vals}
  \cup {St("del", n, "", 0, 0, 0) : n \in Keys}
  \cup {St("scan", 0, "", r[1], r[2], 0) : r \in Ranges}
  \cup {St("call", 0, "", 0, 0, i) : i \in 1..Len(SubProgs)}
  \cup {St("xfer", 0, "", a, 0, 0) : a \in XferAmts}
  \cup {St("emit", 0, "e", 0, 0, 0)}
  \cup {St("use", 0, d, a, 0, 0) : d \in {"x", "c"}, a \in UseAmts}
  \cup {St("fail", 0, "", 0, 0, 0), St("fail500", 0, "", 0, 0, 0)}
Steps == {s \in AllSteps : s.op \in StepOps}
(* the JSON form of a program: a call step carries the callee's program *)
ExtProg(p) == [i \in 1..Len(p) |-> [op |-> p[i].op, n |-> p[i].n, v |-> p[i].v, a |-> p[i].a, b |-> p[i].b, sub |-> p[i].sub,
                                   subp |-> IF p[i].sub = 0 THEN <<>> ELSE SubProgs[p[i].sub]]]

(* ------------------------------------------------------------------ one execution -- *)
(* the environment of a run: "live" = the real XModel / utxo table (PreExec); "rs" = readers built from the  *)
(* declared read set and the declared contract utxo inputs (verification)                                    *)
Env(mode, k, decl, avail, lc, lx) == [mode |-> mode, kv |-> k, decl |-> decl, avail |-> avail, lc |-> lc, lx |-> lx]
Visible(e, k) == e.mode = "live" \/ k \in e.decl        \* an undeclared key answers "not found", like a never-written one
BackVal(e, k) == IF Visible(e, k) THEN e.kv[k].val ELSE Absent
(* what a read of k observes: the latest write or delete of this execution, else the backing state (C10) *)
Sem(e, r, k) == IF r.out[k] # NoWrite THEN (IF r.out[k] = DelMark THEN Absent ELSE r.out[k]) ELSE BackVal(e, k)
Touch(e, r, k) == IF r.out[k] = NoWrite /\ Visible(e, k) THEN r.rd \cup {k} ELSE r.rd
InitRun == [acc |-> "", out |-> [k \in Keys |-> NoWrite], rd |-> {}, ev |-> <<>>, un |-> 0, uout |-> <<>>,
            uc |-> 0, ux |-> 0, nc |-> 0, nx |-> 0, st |-> "run"]
ScanStr(e, r, a, b) ==
  FoldLeft(LAMBDA s, k : IF Sem(e, r, k) = Absent THEN s ELSE s \o ToString(k) \o "=" \o Sem(e, r, k) \o ",",
           "", [i \in 1..(b - a) |-> a + i - 1])

Basic(e, r, s) ==
  CASE s.op = "get"  -> [r EXCEPT !.acc = @ \o Sem(e, r, s.n), !.rd = Touch(e, r, s.n)]
    [] s.op = "put"  -> [r EXCEPT !.out[s.n] = s.v \o ":" \o r.acc, !.rd = Touch(e, r, s.n)]   \* Put forces a read first
    [] s.op = "del"  -> [r EXCEPT !.out[s.n] = DelMark, !.rd = Touch(e, r, s.n)]
    [] s.op = "scan" -> [r EXCEPT !.acc = @ \o "[" \o ScanStr(e, r, s.a, s.b) \o "]",
                                  \* the scan reads the live keys of the range it has not written itself
                                  !.rd = @ \cup {k \in s.a..(s.b - 1) : r.out[k] = NoWrite /\ BackVal(e, k) # Absent}]
    [] s.op = "xfer" -> LET need == (s.a + UAmt - 1) \div UAmt IN       \* whole utxos until the amount is covered, rest = change
                        IF r.un + need > e.avail THEN [r EXCEPT !.st = "fail"]
                        ELSE [r EXCEPT !.un = @ + need,
                                       !.uout = @ \o <<[to |-> "x", amt |-> s.a]>> \o
                                                (IF need * UAmt > s.a THEN <<[to |-> "v", amt |-> need * UAmt - s.a]>> ELSE <<>>)]
    [] s.op = "emit" -> [r EXCEPT !.ev = Append(@, [name |-> s.v, body |-> r.acc])]
    [] s.op = "use"  -> [r EXCEPT !.uc = @ + (IF s.v = "c" THEN CpuUnit * s.a ELSE 0), !.ux = @ + (IF s.v = "x" THEN s.a ELSE 0)]
    [] s.op = "fail" -> [r EXCEPT !.st = "fail"]
    [] s.op = "fail500" -> [r EXCEPT !.st = "s500"]
    [] OTHER -> [r EXCEPT !.st = "fail"]

(* a step of the called contract; a nested call shares the sandbox, has an accumulator and a resource account of its own *)
Top(f, e, r, s) ==
  IF s.op # "call" THEN Basic(e, r, s)
  ELSE LET r1 == FoldLeft(LAMBDA x, t : IF x.st # "run" THEN x ELSE Basic(e, x, t),
                          [r EXCEPT !.acc = "", !.uc = 0, !.ux = 0], SubProgs[s.sub])
           \* bridge ContractCall: the callee's limits are the caller's minus what the caller has used so far
           lc == e.lc - (IF f.nested THEN r.uc ELSE r.uc + r.nc)
           lx == e.lx - (IF f.nested THEN r.ux ELSE r.ux + r.nx)
       IN IF r1.st # "run" \/ r1.uc > lc \/ r1.ux > lx THEN [r EXCEPT !.st = "fail"]
          ELSE [r1 EXCEPT !.acc = r.acc \o "(" \o r1.acc \o ")", !.uc = r.uc, !.ux = r.ux, !.nc = r.nc + r1.uc, !.nx = r.nx + r1.ux]

(* Invoke: the program, then the resource check of bridge vmContextImpl.Invoke.  Result: st in {"ok", "s500", "fail"},  *)
(* uc / ux = the resource use the engine accounts for                                                                  *)
RunF(f, e, p) ==
  LET r == FoldLeft(LAMBDA x, s : IF x.st # "run" THEN x ELSE Top(f, e, x, s), InitRun, p)
      tc == IF f.nested THEN r.uc ELSE r.uc + r.nc
      tx == IF f.nested THEN r.ux ELSE r.ux + r.nx
  IN IF r.st = "fail" \/ tc > e.lc \/ tx > e.lx THEN [r EXCEPT !.st = "fail"]
     ELSE [r EXCEPT !.st = IF r.st = "run" THEN "ok" ELSE "s500", !.uc = tc, !.ux = tx]

(* ------------------------------------------------------------------ pre-execution -- *)
NoResp(res) == [res |-> res, rd |-> [k \in Keys |-> Undecl], wr |-> [k \in Keys |-> NoWrite], ev |-> <<>>, cin |-> 0, cout |-> <<>>,
                gas |-> 0, lim |-> [c |-> 0, x |-> 0]]
(* over: further keys the sandbox read besides those the program's results depend on (C10: constrained, not pinned) *)
PreResp(f, k, p, over) ==
  LET r == RunF(f, Env("live", k, {}, NU, Inf, Inf), p) IN
  IF r.st = "fail" THEN NoResp("fail")
  ELSE [res |-> IF r.st = "s500" THEN "ok500" ELSE "ok",
        rd |-> [n \in Keys |-> IF n \in r.rd \cup over THEN k[n].ver ELSE Undecl],
        wr |-> r.out, ev |-> r.ev, cin |-> r.un, cout |-> r.uout, gas |-> Gas(r.uc, r.ux), lim |-> [c |-> r.uc, x |-> r.ux]]
Required(f, k, p) == LET r == RunF(f, Env("live", k, {}, NU, Inf, Inf), p) IN IF r.st = "fail" THEN {} ELSE r.rd

(* ------------------------------------------------------------------ the transaction  *)
(* what a client assembles from the response: declared reads / writes / events / contract utxo sets (transient bucket), the   *)
(* request with its limits and amount, the '$' output (fee; -1: none), the output to the contract (toC), the contract's utxo *)
(* inputs (rin of them) and outputs (rout) among the transaction's real inputs / outputs                                     *)
(* The declared write set is a LIST of records (key, value), as the transaction carries it: the honest one has one record per    *)
(* written key in key order; a tampered one may repeat a key, repeat a whole record or have its records in another order.       *)
(* The declared read set is the function rd plus a list rdx of further records for keys that have a record already.             *)
(* fw: the transaction declares a write (and a current read) of a key of ANOTHER contract's bucket.                              *)
OutSeq(w) == LET s == SetToSortSeq({n \in Keys : w[n] # NoWrite}, <) IN [i \in 1..Len(s) |-> [n |-> s[i], v |-> w[s[i]]]]
Honest(rp, p, a) == [prog |-> p, amt |-> a, hasreq |-> TRUE, rd |-> rp.rd, rdx |-> <<>>, wl |-> OutSeq(rp.wr), fw |-> FALSE, ev |-> rp.ev, dcin |-> rp.cin,
                     dcout |-> rp.cout, lim |-> rp.lim, fee |-> IF rp.gas > 0 THEN rp.gas ELSE -1, toC |-> a,
                     rin |-> rp.cin, rout |-> rp.cout,
                     extra |-> 0]     \* gas of a SECOND request of the transaction (an effect-free "use c 1" with limits for exactly that); 0: none
Declared(tx) == {n \in Keys : tx.rd[n] # Undecl}
Written(tx) == {tx.wl[i].n : i \in 1..Len(tx.wl)}
RecVals(tx, n) == {tx.wl[i].v : i \in {i \in 1..Len(tx.wl) : tx.wl[i].n = n}}          \* the values the records of key n declare
RecVal(tx, n) == CHOOSE v \in RecVals(tx, n) : TRUE
LastVal(tx, n) == tx.wl[Max({i \in 1..Len(tx.wl) : tx.wl[i].n = n})].v                  \* the record a commit applies last
(* the declared list says the same as an executed write set: every record is produced, everything produced has a record *)
SameWrites(l, w) == /\ \A i \in 1..Len(l) : w[l[i].n] = l[i].v
                    /\ \A n \in {n \in Keys : w[n] # NoWrite} : \E i \in 1..Len(l) : l[i].n = n
(* ... and is the same collection of records (one per key): what the comparison of the code demands *)
SameRecords(l, w) == /\ Len(l) = Cardinality({n \in Keys : w[n] # NoWrite})
                     /\ \A n \in {n \in Keys : w[n] # NoWrite} : \E i \in 1..Len(l) : l[i] = [n |-> n, v |-> w[n]]
SumAmt(s) == FoldLeft(LAMBDA x, o : x + o.amt, 0, s)
SumTo(s, w) == FoldLeft(LAMBDA x, o : IF o.to = w THEN x + o.amt ELSE x, 0, s)
BagIncl(a, b) == \A i \in 1..Len(a) : Cardinality({j \in 1..Len(a) : a[j] = a[i]}) <= Cardinality({j \in 1..Len(b) : b[j] = a[i]})
Change(tx) == IniFunds + tx.rin * UAmt - tx.toC - (IF tx.fee > 0 THEN tx.fee ELSE 0) - SumAmt(tx.rout)

(* single tamperings of the assembled transaction *)
T(tk, n, v, j, d, p) == [tk |-> tk, n |-> n, v |-> v, j |-> j, d |-> d, prog |-> p]
NoT == T("none", 0, "", 0, "", <<>>)
Params(kind, tx) ==
  CASE kind = "none"        -> {NoT}
    \* another version: no version, that of another transaction, or ("off") the same transaction with another offset
    [] kind = "read_ver"    -> ({T(kind, n, v, 0, "", <<>>) : n \in Declared(tx), v \in {"none", "s0", "s"}} \ {T(kind, n, tx.rd[n], 0, "", <<>>) : n \in Declared(tx)})
                               \cup {T(kind, n, "off", 0, "", <<>>) : n \in {n \in Declared(tx) : tx.rd[n] # "none"}}
    [] kind = "read_drop"   -> {T(kind, n, "", 0, "", <<>>) : n \in Declared(tx)}
    [] kind = "read_add"    -> {T(kind, n, "", 0, "", <<>>) : n \in Keys \ Declared(tx)}
    [] kind = "write_drop"  -> {T(kind, n, "", 0, "", <<>>) : n \in Written(tx)}
    [] kind = "write_add"   -> {T(kind, n, "z", 0, "", <<>>) : n \in Keys \ Written(tx)}
    \* another value: "z", the delete mark, or ("!") a value of the same length as the executed one
    [] kind = "write_val"   -> ({T(kind, n, v, 0, "", <<>>) : n \in Written(tx), v \in {"z", DelMark, "!"}} \ {T(kind, n, RecVal(tx, n), 0, "", <<>>) : n \in Written(tx)})
    \* the record of key n names the same key of another contract's bucket (and a current read of that key is declared with it)
    [] kind = "write_bucket" -> {T(kind, n, "", 0, "", <<>>) : n \in Written(tx)}
    \* the record of key n overwritten with a copy of the record of key j (same number of records)
    [] kind = "write_dup"   -> {T(kind, n, "", j, "", <<>>) : n \in Written(tx), j \in Written(tx)} \ {T(kind, n, "", n, "", <<>>) : n \in Written(tx)}
    \* the records of keys n and j change places
    [] kind = "write_swap"  -> {T(kind, r[1], "", r[2], "", <<>>) : r \in {r \in Written(tx) \X Written(tx) : r[1] < r[2]}}
    \* one more record for a key that has one: with another value (write_app), or a copy of its record (write_rep)
    [] kind = "write_app"   -> {T(kind, n, v, 0, "", <<>>) : n \in Written(tx), v \in {"z", DelMark}} \ {T(kind, n, RecVal(tx, n), 0, "", <<>>) : n \in Written(tx)}
    [] kind = "write_rep"   -> {T(kind, n, RecVal(tx, n), 0, "", <<>>) : n \in Written(tx)}
    \* one more record for a declared read, with the same or another version, before the first or after the last record
    [] kind = "read_dup"    -> {T(kind, n, v, 0, d, <<>>) : n \in Declared(tx), v \in {"none", "s0", "s"}, d \in {"first", "last"}}
    [] kind = "arg"         -> ({T(kind, 0, "", j, "", [tx.prog EXCEPT ![j] = s]) : j \in 1..Len(tx.prog), s \in Steps}
                                \ {T(kind, 0, "", j, "", tx.prog) : j \in 1..Len(tx.prog)})
                               \cup (IF Len(tx.prog) < 2 THEN {} ELSE {T(kind, 0, "", j, "", RemoveAt(tx.prog, j)) : j \in 1..Len(tx.prog)})
    [] kind = "limit_below" -> {T(kind, 0, "", 0, d, <<>>) : d \in {d \in {"c", "x"} : tx.lim[d] > 0}}
    [] kind = "limit_above" -> {T(kind, 0, "", 0, d, <<>>) : d \in {"c", "x"}}
    [] kind = "fee_below"   -> IF tx.fee > 0 THEN {T(kind, 0, v, 0, "", <<>>) : v \in {"less", "absent"}} ELSE {}
    [] kind = "fee_above"   -> {T(kind, 0, "", 0, "", <<>>)}
    [] kind = "amt_req"     -> {T(kind, 0, "", 0, "", <<>>)}
    [] kind = "amt_out"     -> IF tx.amt > 0 THEN {T(kind, 0, "", 0, "", <<>>)} ELSE {}
    [] kind = "ev_alter"    -> {T(kind, 0, "", j, "", <<>>) : j \in 1..Len(tx.ev)}
    [] kind = "ev_drop"     -> {T(kind, 0, "", j, "", <<>>) : j \in 1..Len(tx.ev)}
    [] kind = "ctr_alter"   -> IF tx.dcout # <<>> THEN {T(kind, 0, "", 0, "", <<>>)} ELSE {}
    [] kind = "redirect"    -> IF tx.dcout # <<>> THEN {T(kind, 0, "", 0, "", <<>>)} ELSE {}
    \* one of the contract's outputs left out of the transaction's real outputs (the amount becomes the client's change)
    [] kind = "cout_drop"   -> {T(kind, 0, "", j, "", <<>>) : j \in 1..Len(tx.rout)}
    \* one of the contract's outputs pays 1 less among the real outputs / is frozen there (locked until a far block height)
    [] kind = "cout_less"   -> {T(kind, 0, "", j, "", <<>>) : j \in {j \in 1..Len(tx.rout) : tx.rout[j].amt >= 2}}
    [] kind = "cout_freeze" -> {T(kind, 0, "", j, "", <<>>) : j \in 1..Len(tx.rout)}
    [] kind = "cin_omit"    -> IF tx.dcin > 0 THEN {T(kind, 0, "", 0, "", <<>>)} ELSE {}
    \* one more utxo of the vault spent (the surplus is the client's change) without being declared a contract input
    [] kind = "cin_steal"   -> IF tx.dcin < NU THEN {T(kind, 0, "", 0, "", <<>>)} ELSE {}
    [] kind = "cin_extra"   -> IF tx.dcin < NU THEN {T(kind, 0, "", 0, "", <<>>)} ELSE {}
    [] kind = "req_drop"    -> {T(kind, 0, "", 0, "", <<>>)}
    \* a second request (effect-free, uses one unit of gas, declares limits for exactly that) is appended: paid for (the fee grows
    \* by its gas) or not (every request fits into the fee on its own, their sum does not)
    [] kind = "req2_paid"   -> {T(kind, 0, "", 0, "", <<>>)}
    [] kind = "req2_unpaid" -> {T(kind, 0, "", 0, "", <<>>)}
    [] OTHER -> {}
Bump(fee) == (IF fee < 0 THEN 0 ELSE fee) + 1
Tampered(tx, t, k) ==
  CASE t.tk = "none"        -> tx
    [] t.tk = "read_ver"    -> [tx EXCEPT !.rd[t.n] = t.v]
    [] t.tk = "read_drop"   -> [tx EXCEPT !.rd[t.n] = Undecl]
    [] t.tk = "read_add"    -> [tx EXCEPT !.rd[t.n] = k[t.n].ver]
    [] t.tk = "read_dup"    -> [tx EXCEPT !.rdx = Append(@, [n |-> t.n, ver |-> t.v])]
    [] t.tk = "write_drop"  -> [tx EXCEPT !.wl = SelectSeq(tx.wl, LAMBDA r : r.n # t.n)]
    [] t.tk = "write_bucket" -> [tx EXCEPT !.wl = SelectSeq(tx.wl, LAMBDA r : r.n # t.n), !.fw = TRUE]
    [] t.tk \in {"write_add", "write_app", "write_rep"} -> [tx EXCEPT !.wl = Append(@, [n |-> t.n, v |-> t.v])]
    [] t.tk = "write_val"   -> [tx EXCEPT !.wl = [i \in 1..Len(tx.wl) |-> IF tx.wl[i].n = t.n THEN [n |-> t.n, v |-> t.v] ELSE tx.wl[i]]]
    [] t.tk = "write_dup"   -> [tx EXCEPT !.wl = [i \in 1..Len(tx.wl) |-> IF tx.wl[i].n = t.n THEN [n |-> t.j, v |-> RecVal(tx, t.j)] ELSE tx.wl[i]]]
    [] t.tk = "write_swap"  -> [tx EXCEPT !.wl = [i \in 1..Len(tx.wl) |-> IF tx.wl[i].n = t.n THEN [n |-> t.j, v |-> RecVal(tx, t.j)]
                                                                          ELSE IF tx.wl[i].n = t.j THEN [n |-> t.n, v |-> RecVal(tx, t.n)] ELSE tx.wl[i]]]
    [] t.tk = "arg"         -> [tx EXCEPT !.prog = t.prog]
    [] t.tk = "limit_below" -> [tx EXCEPT !.lim[t.d] = @ - 1]
    [] t.tk = "limit_above" -> [tx EXCEPT !.lim[t.d] = @ + (IF t.d = "c" THEN 1000 ELSE 1), !.fee = Bump(@)]   \* the client pays for what it declares
    [] t.tk = "fee_below"   -> [tx EXCEPT !.fee = IF t.v = "absent" THEN -1 ELSE @ - 1]
    [] t.tk = "fee_above"   -> [tx EXCEPT !.fee = Bump(@)]
    [] t.tk = "amt_req"     -> [tx EXCEPT !.amt = @ + 1]
    [] t.tk = "amt_out"     -> [tx EXCEPT !.toC = @ + 1]
    [] t.tk = "ev_alter"    -> [tx EXCEPT !.ev[t.j].body = @ \o "z"]
    [] t.tk = "ev_drop"     -> [tx EXCEPT !.ev = RemoveAt(@, t.j)]
    [] t.tk = "ctr_alter"   -> [tx EXCEPT !.dcout[1].to = "a"]
    [] t.tk = "redirect"    -> [tx EXCEPT !.rout = <<[to |-> "a", amt |-> SumAmt(tx.dcout)]>>]
    [] t.tk = "cout_drop"   -> [tx EXCEPT !.rout = RemoveAt(@, t.j)]
    [] t.tk = "cout_less"   -> [tx EXCEPT !.rout[t.j].amt = @ - 1]
    [] t.tk = "cout_freeze" -> [tx EXCEPT !.rout[t.j].to = @ \o "!"]                  \* another output than the contract's: same receiver, frozen
    [] t.tk = "cin_omit"    -> [tx EXCEPT !.rin = 0]
    [] t.tk = "cin_steal"   -> [tx EXCEPT !.rin = @ + 1]
    [] t.tk = "cin_extra"   -> [tx EXCEPT !.dcin = @ + 1, !.rin = @ + 1]      \* one more utxo of the vault declared and spent; the surplus is the client's change
    [] t.tk = "req_drop"    -> [tx EXCEPT !.hasreq = FALSE]
    [] t.tk = "req2_paid"   -> [tx EXCEPT !.extra = 1, !.fee = Bump(@)]
    [] t.tk = "req2_unpaid" -> [tx EXCEPT !.extra = 1]

(* ------------------------------------------------------------------ verification --- *)
Fresh(tx, k) == /\ \A n \in Declared(tx) : tx.rd[n] = k[n].ver                      \* GenRWSetFromTx / xmodel verifyInputs: every record
                /\ \A i \in 1..Len(tx.rdx) : tx.rdx[i].ver = k[tx.rdx[i].n].ver
(* the declared limits of ALL requests are paid for *)
GasOK(tx) == LET g == Gas(tx.lim.c, tx.lim.x) + tx.extra IN IF tx.fee = -1 THEN g = 0 ELSE tx.fee > 0 /\ tx.fee >= g
NoExt(tx) == Declared(tx) = {} /\ tx.rdx = <<>> /\ tx.wl = <<>> /\ ~tx.fw /\ tx.ev = <<>> /\ tx.dcin = 0 /\ tx.dcout = <<>>
VerifyF(f, tx, k) ==
  /\ tx.rin <= tx.dcin                        \* verifyUTXOPermission: an input of the vault needs to be a declared contract input
  /\ IF ~tx.hasreq THEN NoExt(tx)             \* no request: no read / write set allowed
     ELSE /\ (tx.amt = 0 \/ tx.toC = tx.amt)  \* verifyContractTxAmount
          /\ Fresh(tx, k)
          /\ GasOK(tx)
          /\ LET r == RunF(f, Env("rs", k, Declared(tx), tx.dcin, tx.lim.c, tx.lim.x), tx.prog) IN
             /\ r.st = "ok" \/ (f.st500 /\ r.st = "s500")
             /\ SameRecords(tx.wl, r.out) /\ ~tx.fw /\ r.ev = tx.ev /\ r.un = tx.dcin /\ r.uout = tx.dcout       \* xmodel.Equal on the whole write set
          /\ f.unbound \/ (tx.rin = tx.dcin /\ BagIncl(tx.dcout, tx.rout))
CommitOK(tx, k) ==
  /\ Fresh(tx, k)
  /\ \A n \in Written(tx) : n \in Declared(tx)       \* xmodel verifyOutputs
  /\ tx.rin <= NU /\ Change(tx) >= 0
Stored(v) == [val |-> IF v = DelMark THEN Absent ELSE v, ver |-> "t"]
ApplyKV(tx, k) == [n \in Keys |-> IF n \notin Written(tx) THEN k[n] ELSE Stored(LastVal(tx, n))]      \* updateExtUtxo applies the records in order
ApplyBal(tx, b) == [a |-> b.a - IniFunds + Change(tx) + SumTo(tx.rout, "a"), c |-> b.c + tx.toC,
                    v |-> b.v - tx.rin * UAmt + SumTo(tx.rout, "v"), x |-> b.x + SumTo(tx.rout, "x")]
Refused(k, b) == [res |-> "reject", kv |-> k, bal |-> b]
Outcome(f, tx, k, b) == IF VerifyF(f, tx, k) /\ CommitOK(tx, k) THEN [res |-> "admit", kv |-> ApplyKV(tx, k), bal |-> ApplyBal(tx, b)]
                        ELSE Refused(k, b)
(* Tamperings of the FORM only - the same records in another order, a write record repeated, a declared read repeated with the  *)
(* same (current) version: the transaction declares the same reads and the same key -> value writes as the untampered one (htx), *)
(* so the property leaves the verdict open (R6).  A node may refuse them (cleanly); if it admits one, the commit is that of the   *)
(* untampered transaction, and it is judged like any other.                                                                      *)
FormOnly(t, k) == t.tk \in {"write_swap", "write_rep"} \/ (t.tk = "read_dup" /\ t.v = k[t.n].ver)
Outcomes(f, tx, htx, t, k, b) == IF FormOnly(t, k) THEN {Outcome(f, htx, k, b), Refused(k, b)} ELSE {Outcome(f, tx, k, b)}

(* ------------------------------------------------------------------ state ---------- *)
NoSub == [tx |-> Honest(NoResp("none"), <<>>, 0), t |-> NoT, res |-> "", kv0 |-> [k \in Keys |-> Never], bal0 |-> [a |-> 0, c |-> 0, v |-> 0, x |-> 0]]
Init == /\ phase = "idle" /\ kv = [k \in Keys |-> Never] /\ bal = [a |-> 0, c |-> 0, v |-> 0, x |-> 0] /\ prog = <<>> /\ amt = 0
        /\ resp = NoResp("none") /\ il = 0 /\ tkind = "" /\ sub = NoSub /\ hist = <<>>
Reset == /\ phase' = "idle" /\ kv' = [k \in Keys |-> Never] /\ bal' = [a |-> 0, c |-> 0, v |-> 0, x |-> 0] /\ prog' = <<>> /\ amt' = 0
         /\ resp' = NoResp("none") /\ il' = 0 /\ tkind' = "" /\ sub' = NoSub /\ hist' = <<>>
Log(e) == hist' = IF KeepHist THEN Append(hist, e) ELSE <<e>>
NoDev == {}

KeyStates == {"never", "live", "del"}
StateOf(s) == IF s = "never" THEN Never ELSE IF s = "live" THEN [val |-> "o", ver |-> "s"] ELSE [val |-> Absent, ver |-> "s"]
(* prior state: real transactions "s0" (old value) and "s" (current value or delete) for every key that is not "never" *)
Setup(f) ==
  /\ phase = "idle" /\ f \in [Keys -> KeyStates]
  /\ phase' = "setup" /\ kv' = [k \in Keys |-> StateOf(f[k])] /\ bal' = [a |-> IniFunds, c |-> 0, v |-> NU * UAmt, x |-> 0]
  /\ UNCHANGED <<prog, amt, resp, il, tkind, sub>>
  /\ Log([op |-> "setup", kv |-> [k \in Keys |-> f[k]], nu |-> NU, res |-> "ok", dv |-> NoDev])

AddStep(s) == /\ phase = "setup" /\ Len(prog) < MaxSteps /\ prog' = Append(prog, s)
              /\ UNCHANGED <<phase, kv, bal, amt, resp, il, tkind, sub, hist>>

(* Chain.PreExec(p) with amount a sent along; changes nothing *)
DoPreExec(p, a, over) ==
  /\ phase = "setup" /\ p # <<>>
  /\ \E rp \in {PreResp(Flags, kv, p, over)} :
     /\ resp' = rp
     /\ Log([op |-> "preexec", prog |-> ExtProg(p), amt |-> a, res |-> rp.res,
             dv |-> IF Flags.nested /\ PreResp([Flags EXCEPT !.nested = FALSE], kv, p, over) # rp THEN {"KF_NestedUseUncounted"} ELSE NoDev])
  /\ phase' = "pre" /\ prog' = p /\ amt' = a
  /\ UNCHANGED <<kv, bal, il, tkind, sub>>
PreExecA(a) == DoPreExec(prog, a, {})

Answered == resp.res \in {"ok", "ok500"}
(* another client's transaction overwrites key n between pre-execution and submission *)
Interpose(n) ==
  /\ phase = "pre" /\ Answered /\ il = 0 /\ n \in Keys
  /\ kv' = [kv EXCEPT ![n] = [val |-> "i", ver |-> "i"]] /\ il' = n
  /\ UNCHANGED <<phase, bal, prog, amt, resp, tkind, sub>>
  /\ Log([op |-> "interleave", n |-> n, res |-> "ok", dv |-> NoDev])

PickKind(k) == /\ phase = "pre" /\ Answered /\ k \in TamperKinds /\ (il = 0 \/ k = "none")
               /\ Params(k, Honest(resp, prog, amt)) # {}
               /\ phase' = "kind" /\ tkind' = k
               /\ UNCHANGED <<kv, bal, prog, amt, resp, il, sub, hist>>

(* State.VerifyTx, then State.DoTx, of the transaction assembled from the response and tampered with t *)
(* want: the verdict a recording shows ("" = any): narrows the choice where the specification leaves the verdict open *)
DoSubmit(t, want) ==
  /\ phase \in {"pre", "kind"} /\ Answered
  /\ \E tx \in {Tampered(Honest(resp, prog, amt), t, kv)} :
     \E o \in LET S == Outcomes(Flags, tx, Honest(resp, prog, amt), t, kv, bal) IN IF \E x \in S : x.res = want THEN {x \in S : x.res = want} ELSE S :
     /\ kv' = o.kv /\ bal' = o.bal
     /\ sub' = [tx |-> tx, t |-> t, res |-> o.res, kv0 |-> kv, bal0 |-> bal]
     /\ Log([op |-> "submit", tk |-> t.tk, n |-> t.n, v |-> t.v, j |-> t.j, d |-> t.d, prog |-> ExtProg(t.prog), res |-> o.res,
             \* which of the two calls refuses (informative: the property speaks about the outcome of both together)
             stage |-> IF o.res = "admit" THEN "" ELSE IF VerifyF(Flags, tx, kv) THEN "dotx" ELSE "verify",
             dv |-> {KFName(d) : d \in {d \in {"unbound", "st500", "nested"} : Flags[d] /\ o \notin Outcomes([Flags EXCEPT ![d] = FALSE], tx, Honest(resp, prog, amt), t, kv, bal)}}])
  /\ phase' = "done"
  /\ UNCHANGED <<prog, amt, resp, il, tkind>>
Submit == phase = "kind" /\ \E t \in Params(tkind, Honest(resp, prog, amt)) : DoSubmit(t, "")
(* a failed pre-execution ends the case *)
GiveUp == /\ phase = "pre" /\ ~Answered /\ phase' = "done" /\ UNCHANGED <<kv, bal, prog, amt, resp, il, tkind, sub, hist>>

Next == \/ \E f \in [Keys -> KeyStates] : Setup(f)
        \/ \E s \in Steps : AddStep(s)
        \/ \E a \in Amts : PreExecA(a)
        \/ \E n \in Keys : Interpose(n)
        \/ \E k \in TamperKinds : PickKind(k)
        \/ Submit
        \/ GiveUp
Spec == Init /\ [][Next]_vars
View == <<phase, kv, bal, prog, amt, resp, il, tkind, sub>>

(* ------------------------------------------------------------------ observables ---- *)
RespObs(rp) ==
  [res |-> rp.res,
   reads |-> LET s == SetToSortSeq({n \in Keys : rp.rd[n] # Undecl}, <) IN [i \in 1..Len(s) |-> [n |-> s[i], ver |-> rp.rd[s[i]]]],
   wr |-> LET s == SetToSortSeq({n \in Keys : rp.wr[n] # NoWrite}, <) IN [i \in 1..Len(s) |-> [n |-> s[i], v |-> rp.wr[s[i]]]],
   ev |-> rp.ev, cin |-> rp.cin, cout |-> rp.cout, tcin |-> rp.cin, tcout |-> rp.cout,     \* Flush wrote the utxo sets into the transient bucket
   gas |-> rp.gas, lim |-> rp.lim, other |-> <<>>]
(* transient: the versions of the three records of the transient bucket (utxo inputs, utxo outputs, events), which no commit may store *)
(* keys: the three keys as the node that executed the steps reads them (its version cache is warm); cold: as a node reads them  *)
(* that has nothing but the stored data (opened on it after the fact); ref: the key of the write record the stored version of  *)
(* key k refers to (transaction, offset), 0 = no version; scan / cscan: the keys a range read over the whole bucket returns, on *)
(* the same two nodes.  All of them are functions of kv: a commit changes exactly the keys of the write set for every reader.   *)
LiveKeys == SetToSortSeq({k \in Keys : kv[k].val # Absent}, <)
Obs == [keys |-> [k \in Keys |-> kv[k]], cold |-> [k \in Keys |-> kv[k]], ref |-> [k \in Keys |-> IF kv[k].ver = "none" THEN 0 ELSE k],
        scan |-> LiveKeys, cscan |-> LiveKeys, foreign |-> <<"none", "none", "none">>,      \* nothing ever reaches the other contract's keys
        bal |-> bal, transient |-> <<"none", "none", "none">>, resp |-> RespObs(resp)]

(* ------------------------------------------------------------------ invariants ----- *)
Done == phase = "done" /\ sub.res # ""
TypeOK == /\ phase \in {"idle", "setup", "pre", "kind", "done"} /\ il \in 0..NK /\ amt \in Nat /\ Len(prog) <= MaxSteps
          /\ \A k \in Keys : kv[k].ver \in {"none", "s", "i", "t"}
          /\ bal.a >= 0 /\ bal.c >= 0 /\ bal.v >= 0 /\ bal.x >= 0
          /\ bal.a + bal.c + bal.v + bal.x <= IniFunds + NU * UAmt
(* the transaction assembled from the response passes verification on the same state and commits *)
HonestAccepted == (Done /\ sub.t.tk = "none" /\ resp.res = "ok" /\ (il = 0 \/ resp.rd[il] = Undecl)) => sub.res = "admit"
(* committing changes exactly the keys / outputs of the write set to exactly those values and nothing else *)
CommitExact ==
  (Done /\ sub.res = "admit") =>
     /\ \A n \in Keys : IF n \notin Written(sub.tx) THEN kv[n] = sub.kv0[n]
                        ELSE \A v \in RecVals(sub.tx, n) : kv[n] = Stored(v)          \* EVERY declared record is what the key now holds
     /\ bal = ApplyBal(sub.tx, sub.bal0)
     /\ sub.t.tk = "none" => /\ sub.tx.wl = OutSeq(resp.wr)   \* ... and untampered, that is the write set of the pre-execution
                             /\ bal.x = sub.bal0.x + SumTo(resp.cout, "x")
                             /\ bal.v = sub.bal0.v - resp.cin * UAmt + SumTo(resp.cout, "v")
                             /\ bal.a = sub.bal0.a - amt - resp.gas /\ bal.c = sub.bal0.c + amt
(* each single tampering that makes the transaction claim something its execution does not produce, or pay less, is refused *)
MustReject == {"read_ver", "write_drop", "write_add", "write_val", "write_dup", "write_app", "write_bucket", "cin_steal", "limit_below", "fee_below", "amt_req", "amt_out",
               "ev_alter", "ev_drop", "ctr_alter", "redirect", "cout_drop", "cout_less", "cout_freeze", "cin_omit", "cin_extra", "req2_unpaid"}
TamperRejected == (Done /\ sub.t.tk \in MustReject) => sub.res = "reject"
(* a declared read that is not current *)
StaleRejected == /\ (Done /\ il # 0 /\ sub.tx.rd[il] # Undecl) => sub.res = "reject"
                 /\ (Done /\ ~Fresh(sub.tx, sub.kv0)) => sub.res = "reject"         \* any record of the declared read set, repeated ones included
(* whatever was admitted is sound: declared reads current, re-executing ITS requests over ITS declared reads (no limits) ends  *)
(* well and produces its declared writes, events and transfers, which are the transaction's real transfers, and it pays for   *)
(* everything that execution uses                                                                                            *)
AdmittedSound ==
  (Done /\ sub.res = "admit" /\ sub.tx.hasreq) =>
     /\ Fresh(sub.tx, sub.kv0)
     /\ LET r == RunF(Ideal, Env("rs", sub.kv0, Declared(sub.tx), sub.tx.dcin, Inf, Inf), sub.tx.prog) IN
        /\ r.st = "ok"
        /\ SameWrites(sub.tx.wl, r.out) /\ ~sub.tx.fw /\ r.ev = sub.tx.ev
        /\ r.un = sub.tx.rin /\ BagIncl(r.uout, sub.tx.rout)
        /\ (IF sub.tx.fee > 0 THEN sub.tx.fee ELSE 0) >= Gas(r.uc, r.ux) + sub.tx.extra
     /\ sub.tx.amt = 0 \/ sub.tx.toC = sub.tx.amt
(* a rejected call changes nothing (a failed pre-execution changes nothing by construction: PreExec leaves kv and bal alone) *)
RejectedChangesNothing == (Done /\ sub.res = "reject") => kv = sub.kv0 /\ bal = sub.bal0
=============================================================================
