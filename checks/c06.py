"""C06 - crash consistency of ledger and state at every storage-write boundary.

Spec: XState.tla describes every operation as its sequence of atomic storage writes (WalkSteps: pool roll-back
batch, one batch per undone / redone block, one per re-admitted transaction; a mined block = ledger confirmation
then PlayForMiner as two separate steps); CrashSpec adds WalkCrash (the process dies after the j-th write and
restarts) and TLC checks the C01 / C02 / C03 invariants in every post-crash state.
Code: the in-memory kv engine logs every atomic write of both databases. For every operation of every generated
behaviour and EVERY prefix of the writes it issued, the image is materialised, a real ledger + state machine is
opened on it, all observables are validated against the specification's persisted state after that many writes,
then the state is synchronised to the ledger tip (Walk) and must equal the replay of the ledger's main chain."""
import vp
import xstate_common as xc
import tracecheck


def check(run):
    if xc.maybe_replay(run):
        return
    quick = run.tier == "quick"
    run.build_harness()
    run.tlc_mc("XState.tla", "MC_XState_crash.cfg" if quick else "MC_XState_crash_thorough.cfg", timeout=3000)
    plans = [dict(num=45, ops=18, window=1, driver_args=["-cuts"], batch=60)] if quick else \
            [dict(num=350, ops=20, window=1, driver_args=["-cuts"], batch=100), dict(num=200, ops=24, window=0, maxb=9, driver_args=["-cuts"], batch=100)]
    # blocks with 300 KB transactions on a 1 MB chain: however big a block, its effects and the pointer move are one write
    plans.append(dict(num=20 if quick else 200, ops=18, window=0, maxb=8, txs='{"b1", "b2", "b3", "s4", "t1", "t2", "p1", "p2"}', budget=8,
                      driver_args=["-cuts", "-maxmb", "1"], batch=60))
    groups = xc.gen(run, plans)
    xc.replay_validate(run, groups)
    # ledger half: confirmations on every tree shape (extensions, side blocks, trunk switches, refused blocks) and
    # truncations; a ledger reopened after ANY prefix of an operation's storage writes must answer like the ledger
    # before or after the operation (Trace_Ledger.CutsOK)
    lb = []
    if not run.violations:
        lb = run.tlc_gen("Gen_Ledger.tla", "Gen_Ledger.cfg", 40 if quick else 600, 16, name="genL", seed=run.seed,
                         consts={"MaxBlocks": 8, "NTx": 3, "MaxTxPerBlock": 2, "MaxOps": 14})
        tracecheck.replay_and_validate(run, lb, driver="ledger-replay", driver_args=["-ntx", "3", "-cuts"],
                                       trace_module="Trace_Ledger.tla", trace_cfg="Trace_Ledger.cfg", name="L")
    lst = xc.stats(lb)
    run.cov["op_mix_ledger"] = dict(lst)
    behs = [b for _, bs, _ in groups for b in bs]
    st = xc.stats(behs)
    run.samples = behs[:2]
    run.cov["op_mix"] = dict(st)
    run.cov["exhaustive"] = False
    run.cov["crash_points_note"] = "every prefix of every operation's storage writes of every replayed behaviour is reopened (exhaustive over the crash points of the scenarios run, not over scenarios)"
    run.assumptions += ["a storage write (single put / delete or a batch) is atomic and durable once issued; crashes are modelled "
                        "between writes of the in-memory engine, not inside goleveldb",
                        "the pool after synchronisation is not compared (any subset of the pending transactions may survive, R3); "
                        "it is rolled back before the comparison with the replay of the ledger tip"]
    run.finish(require={"walks": (st["walk:ok"] + st["walk:fail"], 20), "mined_blocks": (st["mine:ok"], 5),
                        "admitted": (st["submit:admit"], 20),
                        "ledger_trunk_switches": (lst["confirm:ok_switch"], 5), "ledger_truncations": (lst["truncate:ok"], 3)})
