"""Helpers shared by checks/c14.py and checks/c15.py (not a check itself): reading TLA+ values as TLC
prints them, reading a TLC -dump file, running an exhaustive model check with -dump, known-finding lines
proposed in findings/<ID>.known."""
import json
import os
import re

import vp

_TOK = re.compile(r'\s*(<<|>>|\|->|\[|\]|\{|\}|,|"(?:[^"\\]|\\.)*"|-?\d+|[A-Za-z_][A-Za-z_0-9]*)')


def tla_value(text):
    """Parse a TLA+ value as TLC prints it (sequences, records, sets, strings, integers, booleans)."""
    toks = _TOK.findall(text)
    pos = [0]

    def val():
        t = toks[pos[0]]
        pos[0] += 1
        if t == "<<" or t == "{":
            close = ">>" if t == "<<" else "}"
            out = []
            while toks[pos[0]] != close:
                out.append(val())
                if toks[pos[0]] == ",":
                    pos[0] += 1
            pos[0] += 1
            return out
        if t == "[":
            out = {}
            while toks[pos[0]] != "]":
                k = toks[pos[0]]
                pos[0] += 2          # name |->
                out[k] = val()
                if toks[pos[0]] == ",":
                    pos[0] += 1
            pos[0] += 1
            return out
        if t.startswith('"'):
            return json.loads(t)
        if t == "TRUE":
            return True
        if t == "FALSE":
            return False
        return int(t)

    return val()


def read_dump(path):
    """Yield {var: text} for every state of a TLC -dump file."""
    cur, var = None, None
    with open(path) as f:
        for line in f:
            if line.startswith("State "):
                if cur is not None:
                    yield cur
                cur, var = {}, None
            elif line.startswith("/\\ "):
                var, _, rest = line[3:].partition(" = ")
                cur[var] = rest
            elif cur is not None and var is not None and line.strip():
                cur[var] += line
    if cur is not None:
        yield cur


def mc_dump(run, module, cfg, workers, timeout):
    """run.tlc_mc with -dump (vp.Run.tlc_mc has no dump option; same bookkeeping, same timeout / metadir
    handling through run._tlc).  Returns (result record, dump path, TLC output)."""
    d = run._tlc_dir("mc_" + cfg.replace(".cfg", ""), [cfg])
    rc, out, dt = run._tlc(d, ["-workers", str(workers), "-dump", "states", "-config", cfg, module], timeout)
    with open(os.path.join(d, "out.txt"), "w") as f:
        f.write(out)
    m = re.search(r"(\d+) states generated, (\d+) distinct states found, (\d+) states left", out)
    dm = re.search(r"depth of the complete state graph search is (\d+)", out)
    if rc != 0 or not m or "Model checking completed. No error has been found" not in out:
        vp.log(out[-5000:])
        raise vp.Undecided("TLC model check of %s/%s did not complete cleanly (rc=%d): the IDEAL specification "
                           "itself is refuted or TLC failed" % (module, cfg, rc))
    res = {"module": module, "cfg": cfg, "generated": int(m.group(1)), "distinct": int(m.group(2)),
           "depth": int(dm.group(1)) if dm else None, "wall_s": round(dt, 1), "complete": int(m.group(3)) == 0}
    run.cov.setdefault("model_checks", []).append(res)
    run.cov["states"] = run.cov.get("states", 0) + res["distinct"]
    run.cov["transitions"] = run.cov.get("transitions", 0) + res["generated"]
    return res, os.path.join(d, "states.dump"), out


def known(pid):
    """known: lines of KNOWN_FINDINGS.txt plus the proposed ones in findings/<pid>.known (same format;
    VERIF_NO_PROPOSED_KNOWN=1 ignores the proposed ones).  Returns {key: description}."""
    out = dict(vp.known_keys(pid))
    extra = os.path.join(vp.VERIF, "findings", "%s.known" % pid)
    if os.path.exists(extra) and not os.environ.get("VERIF_NO_PROPOSED_KNOWN"):
        for line in open(extra):
            m = re.match(r"known:\s+property=%s\s+(.*?)\s*::\s*(.*)$" % pid, line.strip())
            if m:
                km = re.search(r"key=(\S+)", m.group(1))
                if km:
                    out.setdefault(km.group(1), m.group(2))
    return out
