"""C10 - contract sandbox: read-your-writes, exact range scans, sound and replayable read/write set.

(1) TLC model-checks spec/Sandbox.tla (IDEAL) through spec/MC_Sandbox.tla: every sequence of
    Get / Put / Del / Select(bounds, early stop) (/ Transfer(from, to, amount): senders holding utxos of
    different amounts and one holding nothing, amounts from zero to above the holdings, the reader handing
    out free utxos in any order) over every backing state (live, deleted, never written) until the
    reachable state space is exhausted, against: the mechanism's answers are
    the semantic ones (ReadYourWrites, ScanExact), the read set covers what was observed and what was
    written (ReadSetSound, ScanReadsWhatItSaw) and the replay over the read set alone reproduces every
    result (ReplayReproduces, by lock-step replay with a prophecy of the final read set).
(2) TLC simulates the same spec and dumps programs; (3) harness/cmd/c10 runs every program on the real
    sandbox twice - over the real XModel of a fixture node and over the environment
    State.verifyTxRWSets builds from the first run's read/write set - and records every result and the
    read/write set after every call; (4) TLC validates the recording against Trace_Sandbox.tla, which
    also judges the replay clause (same results, same write set).
Known deviations (DESIGN section 4) are spec constants KF_*; only those listed as `known:` in
/verif/KNOWN_FINDINGS.txt or (proposed, until the main session decides) /verif/findings/C10.known
are enabled for the second validation pass."""
import json, os, re
from concurrent.futures import ThreadPoolExecutor
import vp
import tracecheck

KFS = ["KF_ScanYieldsOwnDelete", "KF_ScanYieldsReadMissingKey", "KF_ScanInvertedRangePanics",
       "KF_ScanOpenEndSkipsBacking"]
PROPOSED = os.path.join(vp.VERIF, "findings", "C10.known")


def known():
    """key -> description of the deviations that may be enabled (status known)."""
    out = dict(vp.known_keys("C10"))
    fixed = {k["key"] for k in vp.known_findings("C10") if k["status"] == "fixed"}
    if os.path.exists(PROPOSED):
        for line in open(PROPOSED):
            m = re.match(r"known:\s+property=C10\s+(.*?)\s*::\s*(.*)$", line.strip())
            if not m:
                continue
            km = re.search(r"key=(\S+)", m.group(1))
            if km and km.group(1) not in fixed:
                out.setdefault(km.group(1), m.group(2))
    out = {k: v for k, v in out.items() if k in KFS}
    # self-test aid (mutants / proposed fixes in a VERIF_REPO worktree): restrict the enabled deviations,
    # e.g. VERIF_C10_KF=none or VERIF_C10_KF=KF_ScanYieldsOwnDelete,KF_ScanOpenEndSkipsBacking
    sel = os.environ.get("VERIF_C10_KF")
    if sel is not None:
        names = [] if sel == "none" else sel.split(",")
        out = {k: v for k, v in out.items() if k in names}
    return out


def in_range(n, lo, hi):
    return n >= lo and (hi == 0 or n < hi)


def exercise(behs):
    """Counts of the interesting situations in the programs that were executed."""
    c = {"programs": len(behs), "scans": 0, "scans_own_delete_in_range": 0, "scans_backing_deleted_in_range": 0,
         "scans_read_missing_key_in_range": 0, "scans_early_stop": 0, "scans_edge_bounds": 0,
         "read_your_write_reads": 0, "reads_after_own_delete": 0, "put_after_del": 0}
    for b in behs:
        bk = {(e["b"], e["n"]): e["st"] for e in b[0]["bk"]}
        last = {}       # key -> last own write ("D" or value)
        read = set()    # keys read explicitly
        for o in b[1:]:
            k = (o.get("b"), o.get("n"))
            if o["op"] == "get":
                if k in last:
                    c["read_your_write_reads"] += 1
                    if last[k] == "D":
                        c["reads_after_own_delete"] += 1
                read.add(k)
            elif o["op"] == "put":
                if last.get(k) == "D":
                    c["put_after_del"] += 1
                last[k] = o["v"]
                read.add(k)
            elif o["op"] == "del":
                last[k] = "D"
                read.add(k)
            elif o["op"] == "select":
                c["scans"] += 1
                lo, hi = o["lo"], o["hi"]
                if lo == 0 or hi == 0 or lo >= hi:
                    c["scans_edge_bounds"] += 1
                if hi != 0 and lo > hi:
                    continue
                rng = [kk for kk in bk if kk[0] == o["b"] and in_range(kk[1], lo, hi)]
                c["scans_own_delete_in_range"] += any(last.get(kk) == "D" for kk in rng)
                c["scans_backing_deleted_in_range"] += any(bk[kk] == "del" and kk not in last for kk in rng)
                c["scans_read_missing_key_in_range"] += any(bk[kk] == "never" and kk in read and kk not in last for kk in rng)
                c["scans_early_stop"] += len(o["items"]) == o["lim"] and o["lim"] > 0
    return c


def check(run):
    quick = run.tier == "quick"
    run.build_harness("c10")
    kf = known()
    kf_consts = {k: "TRUE" for k in kf}

    if run.replay:
        rep = json.load(open(run.replay))
        prog = rep["program"]
        init = [e for e in prog if e["op"] == "init"][:1]
        calls = []
        for e in prog:
            if e["op"] == "rwset":
                break
            if e["op"] not in ("init", "reset"):
                calls.append(e)
        base = ["-base", str(init[0].get("tr", 0))] if init else []
        tracecheck.replay_and_validate(run, [init + calls], driver="sandbox-replay", driver_args=base,
                                       trace_module="Trace_Sandbox.tla", trace_cfg="Trace_Sandbox.cfg",
                                       consts=rep.get("consts"), kf_consts=kf_consts, kf_desc=kf)
        run.finish()

    core = {"EdgeBounds": "FALSE", "Limits": "{1, 2, 9}"}
    edge = {"EdgeBounds": "TRUE", "Limits": "{0, 9}"}
    wide = {"N1": 4, "N2": 2, "EdgeBounds": "FALSE", "Limits": "{1, 3, 9}"}
    # transfer-heavy programs: few keys, so that most calls are transfers (every sender incl. one that holds nothing,
    # amounts from zero to above the holdings: failing and succeeding transfers interleaved in one execution)
    utxo = {"N1": 1, "N2": 0, "NT": 1, "EdgeBounds": "FALSE", "Limits": "{9}", "NU": 2, "TW": 24}
    if quick:
        plans = [(450, 8, core), (250, 6, edge), (100, 8, wide), (150, 8, utxo), (100, 10, dict(utxo, NU=3))]
        mcs = [("MC_Sandbox.cfg", 900), ("MC_Sandbox_utxo.cfg", 600)]
    else:
        plans = [(3000, 10, core), (1500, 8, edge), (1200, 12, wide), (600, 16, dict(core, NU=4)),
                 (1500, 10, utxo), (800, 14, dict(utxo, NU=3))]
        mcs = [("MC_Sandbox_thorough.cfg", 1500), ("MC_Sandbox.cfg", 900), ("MC_Sandbox_utxo.cfg", 600),
               ("MC_Sandbox_utxo_thorough.cfg", 1200)]
    if os.environ.get("VERIF_C10_SKIP_MC"):      # self-test aid only (mutant loops): the design check does not read /repo
        run.assumptions.append("MODEL CHECK SKIPPED (VERIF_C10_SKIP_MC)")
        mcs = []

    # (1) design: exhaustive model checks and (2) program generation run side by side (independent TLC processes,
    # each deterministic for its own seed)
    def gen(k):
        num, ops, consts = plans[k]
        return run.tlc_gen("Gen_Sandbox.tla", "Gen_Sandbox.cfg", num, ops + 3, name="gen%d" % k, seed=run.seed + 7 * k,
                           consts=dict(consts, MaxOps=ops), timeout=1500)
    with ThreadPoolExecutor(max_workers=len(plans) + 1) as ex:
        gens = [ex.submit(gen, k) for k in range(len(plans))]
        mcf = ex.submit(lambda: [run.tlc_mc("MC_Sandbox.tla", cfg, timeout=to, workers=12) for cfg, to in mcs])
        behsets = [g.result() for g in gens]
        mcf.result()

    # (3)-(4) conformance
    allb = []
    for k, behs in enumerate(behsets):
        vc = {kk: v for kk, v in plans[k][2].items() if kk in ("N1", "N2", "NT")}
        tracecheck.replay_and_validate(run, behs, driver="sandbox-replay", driver_args=[],
                                       trace_module="Trace_Sandbox.tla", trace_cfg="Trace_Sandbox.cfg", name="t%d" % k,
                                       consts=vc, kf_consts=kf_consts, kf_desc=kf, batch=500)
        allb += behs
        if run.violations:
            break
    c = exercise(allb)
    # what the transfers of the FIRST run on the real code did (the node's reader hands out utxos in an order of its own,
    # so the generated results do not count)
    real = {}
    sf = os.path.join(run.work, "go", "c10_stats.ndjson")
    if os.path.exists(sf):
        for line in open(sf):
            for k, v in json.loads(line).items():
                real[k] = real.get(k, 0) + v
    for k in sorted(real):
        if k.startswith("transfers_"):
            run.cov["real_" + k] = real[k]
    run.cov["programs_replayed_over_read_set"] = run.cov.get("traces_validated_against_impl", 0)
    run.cov["known_deviations_enabled"] = sorted(kf)
    run.samples = [[{k: v for k, v in o.items() if k not in ("dv", "need")} for o in b] for b in allb[:2]]
    run.assumptions += [
        "backing states are produced by real transactions admitted through State.DoTx (signature and contract "
        "re-execution checks of VerifyTx are not part of the setup); the replay run uses the environment "
        "State.verifyTxRWSets builds (GenRWSetFromTx, XMReaderFromRWSet, NewUTXOReaderFromInput)",
        "R6: never-written and deleted keys inside a scanned range are not demanded in the read set (a read set of "
        "versioned keys cannot name a key the scan never saw); 'not found' and 'marked deleted' are one result class",
        "programs are straight-line (results do not steer later calls); values written are non-empty and differ "
        "from the delete marker",
        "transfers: two senders holding 0-4 utxos of different amounts and one holding nothing, amounts 0..above the "
        "holdings; which free utxos of the sender the node's reader hands out, and in which order, is left open (any "
        "distinct free utxos covering the amount), the replay has to take exactly the recorded ones; frozen utxos and "
        "utxos locked by other executions are not driven",
    ]
    run.finish(require={
        "programs": (c["programs"], 300),
        "replays_over_read_set": (run.cov.get("traces_validated_against_impl", 0), 300),
        "scans_with_own_delete_in_range": (c["scans_own_delete_in_range"], 30),
        "scans_with_backing_deleted_in_range": (c["scans_backing_deleted_in_range"], 30),
        "scans_with_read_missing_key_in_range": (c["scans_read_missing_key_in_range"], 10),
        "scans_early_stopped": (c["scans_early_stop"], 30),
        "scans_edge_bounds": (c["scans_edge_bounds"], 30),
        "read_your_write_reads": (c["read_your_write_reads"], 30),
        "reads_after_own_delete": (c["reads_after_own_delete"], 5),
        "put_after_del": (c["put_after_del"], 5),
        "transfers_ok": (real.get("transfers_ok", 0), 100),
        "transfers_ok_several_inputs": (real.get("transfers_ok_several_inputs", 0), 20),
        "transfers_ok_with_change": (real.get("transfers_ok_with_change", 0), 20),
        "transfers_failed_lack_of_funds": (real.get("transfers_failed_lack_of_funds", 0), 50),
        "transfers_failed_zero_amount": (real.get("transfers_failed_zero_amount", 0), 20),
        "transfers_failed_unknown_sender": (real.get("transfers_failed_unknown_sender", 0), 50),
        "transfers_ok_after_failed_same_sender": (real.get("transfers_ok_after_failed_same_sender", 0), 30),
        "transfers_ok_after_failed_other_sender": (real.get("transfers_ok_after_failed_other_sender", 0), 30),
        "transfers_failed_after_ok_same_sender": (real.get("transfers_failed_after_ok_same_sender", 0), 20),
    })
