"""C14 - quorum certificates need a quorum of distinct, valid validator signatures.

(1) TLC model-checks spec/QC.tla (IDEAL): every multiset of signature entries (valid member, the same member
    again, non-member, wrong id, corrupted, key / address mismatch) for every validator-set size up to MaxN,
    and every vote-collection history within the bounds, against the C14 invariants.  The run dumps its
    state space: every assembled certificate becomes a case, every collector state a vote-message history.
(2) TLC simulates the same spec for validator sets up to 10 (Gen_QC); a seeded sampler adds volume there.
(3) The Go harness (harness/cmd/c14) realises every case with real ECDSA keys and signatures and submits it
    to the real DefaultSaftyRules.CheckProposal (directly, through the block's consensus-storage encoding, and
    through the real xpoa CheckMinerMatch) / CheckVote / CalVotesThreshold and to the real vote collection
    (Smr.handleReceivedVoteMsg through the verif shim); it records the verdicts.  The validator set in force for
    the certified view is a dimension of its own: certificates arrive as the justify of a proposal through the real
    Smr.handleReceivedProposal at a validator-set change (election stub answering by view: old set / new set,
    differing in membership and size; signed by the old set, the new set, the intersection).
(4) TLC validates the recorded verdicts against the same operators (Trace_QC): first IDEAL, then - if
    rejected - ACTUAL with exactly the deviations listed as known.
"""
import concurrent.futures
import json
import os
import random
import re
import shutil

import sys

import vp

sys.path.insert(0, os.path.dirname(os.path.abspath(__file__)))
from _tlcdump import tla_value, read_dump, known as known_findings, mc_dump as _mc_dump   # noqa: E402

KF_ALL = ["KF_RepeatedSignerCounts", "KF_VoteAcceptsFailedVerify", "KF_UnverifiedExtraVoteSigns"]
STATS = {}
FRAMES = ["lowview", "nilvals", "nilpid", "orphan_near", "orphan_far"]


def known():
    return known_findings("C14")


def mc_dump(run, cfg, workers, timeout):
    """Exhaustive model check with a dump of the state space; also returns the kind table TLC printed."""
    res, dump, out = _mc_dump(run, "QC.tla", cfg, workers, timeout)
    km = re.search(r'<<\s*"KINDTABLE",(.*?)>>\s*>>', out, re.S)
    if not km:
        raise vp.Undecided("kind table not printed by TLC")
    return res, dump, tla_value(km.group(1) + ">>")


def cases_from_dump(path, kinds):
    """Every assembled certificate (n, entries) and, for every collector state, the history reaching it."""
    certs, colls = [], []
    for st in read_dump(path):
        mode = st["mode"].strip().strip('"')
        n = int(st["n"])
        if mode in ("idle", "assemble"):
            q = [int(x) for x in re.findall(r"\d+", st["qc"])]
            certs.append((n, q))
        else:
            hist = tla_value(st["hist"])
            k = max(i for i, h in enumerate(hist) if h["op"] == "collect")
            colls.append(hist[k:])
    certs.sort()
    colls.sort(key=lambda h: json.dumps(h, sort_keys=True))
    return [(n, [kinds[j - 1] for j in q]) for n, q in certs], colls


# ----------------------------------------------------------------------------- behaviours
def chunk(ops, size, head=None):
    out = []
    for i in range(0, len(ops), size):
        out.append((head or []) + ops[i:i + size])
    return out


def pure_ops(cases, seed, frame_every):
    ops = []
    for idx, (n, signs) in enumerate(cases):
        ops.append({"op": "proposal", "n": n, "frame": "std", "signs": signs})
        ops.append({"op": "vote", "n": n, "signs": signs})
        if len(signs) <= 1 or (idx + seed) % 4 == 0:
            ops.append({"op": "proposal", "n": n, "frame": "highqc", "signs": signs})
        if (idx + seed) % frame_every == 0:
            ops.append({"op": "proposal", "n": n, "frame": FRAMES[(idx // frame_every + seed) % len(FRAMES)], "signs": signs})
    return ops


def sampled_cases(rng, kinds, count, lo, hi):
    """Seeded sampler for large validator sets: multisets biased towards certificates near the threshold."""
    out = []
    for _ in range(count):
        n = rng.randint(lo, hi)
        need = n - (n - 1) // 3 - 1
        valid = max(0, min(n, need + rng.choice([-2, -1, -1, 0, 0, 0, 1, 2])))
        members = rng.sample(range(1, n + 1), valid)
        signs = [kinds[2 + 4 * (i - 1)] for i in members]
        for _ in range(rng.choice([0, 0, 1, 1, 2, 3])):       # noise that must not count
            r = rng.random()
            if r < 0.35 and members:
                signs.append(kinds[2 + 4 * (rng.choice(members) - 1)])             # the same member again
            elif r < 0.55:
                signs.append(kinds[rng.randint(0, 1)])                             # non-member
            else:
                signs.append(kinds[2 + 4 * (rng.randint(1, n) - 1) + rng.randint(1, 3)])   # wrong id / corrupted / mismatch
        rng.shuffle(signs)
        out.append((n, signs))
    return out


def _quorum(signs, S):
    """Case selection and coverage counting only (never the oracle): does the certificate carry valid signatures of a
    quorum of the set S?"""
    ok = {e["a"] for e in signs if e["a"] in S and e["k"] == e["a"] and e["s"] == "good"}
    return len(ok) >= len(S) - (len(S) - 1) // 3 - 1


def receive_ops(rng, cases, per_case):
    """The certificate as the justify of a proposal received at a validator-set change: vc = the set in force for the
    certified view, vp = the set in force for the view of the carrying proposal, both subsets of the identities 1..n.
    Scenarios: signed by the old set only / by the new set only / by the intersection, sets differing in membership
    and in size, unchanged set, arbitrary pairs."""
    ops = []
    for n, signs in cases:
        ids = list(range(1, n + 1))
        signers = sorted({e["a"] for e in signs if e["a"] >= 1 and e["k"] == e["a"] and e["s"] == "good"})
        others = [i for i in ids if i not in signers]

        def some(pool, lo, hi):
            pool = list(pool)
            if not pool:
                return []
            return rng.sample(pool, max(min(lo, len(pool)), min(len(pool), rng.randint(lo, hi))))

        for _ in range(per_case):
            kind = rng.randrange(7)
            if kind == 0 and signers:        # the old set signed; the new set shares at most one member with it
                vc = signers + some(others, 0, 1)
                vp = some(others, 1, n) + some(signers, 0, 1)
            elif kind == 1 and signers:      # the NEW set signed a certificate of the old set's view
                vp = signers + some(others, 0, 1)
                vc = some(others, 1, n) + some(signers, 0, 1)
            elif kind == 2 and len(signers) >= 2:     # the intersection signed
                common = signers
                vc = common + some(others, 0, 2)
                vp = common + some([i for i in others if i not in vc], 0, 2)
            elif kind == 3:                  # the set grows / shrinks
                vc = some(ids, 1, max(1, n // 2))
                vp = sorted(set(vc) | set(some(ids, 1, n)))
                if rng.random() < 0.5:
                    vc, vp = vp, vc
            elif kind == 4:                  # no change
                vc = some(ids, 1, n)
                vp = list(vc)
            else:
                vc, vp = some(ids, 1, n), some(ids, 1, n)
            vc, vp = sorted(set(vc)), sorted(set(vp))
            if not vc or not vp:
                continue
            ops.append({"op": "receive", "n": n, "vc": vc, "vp": vp, "signs": signs})
    return ops


def collection_from_case(rng, n, signs):
    """A vote collection that delivers the entries of a certificate one message at a time, in random order."""
    msgs = list(signs)
    rng.shuffle(msgs)
    return [{"op": "collect", "n": n}] + [{"op": "votemsg", "n": n, "signs": [e]} for e in msgs]


# ----------------------------------------------------------------------------- stages 3 + 4
def replay_validate(run, behs, kf, name, batch, par):
    """Replay behaviours on the real code in batches and validate every batch with TLC; batches are
    validated concurrently (one JVM each).  Returns (events, inexact events)."""
    kf_consts = {k: "TRUE" for k in kf if k in KF_ALL}

    def validate(b0, trace):
        res = run.tlc_validate("Trace_QC.tla", "Trace_QC.cfg", trace, name="%s_val_%d" % (name, b0))
        used = []
        if res["hw"] != res["len"] + 1 and kf_consts:
            res = run.tlc_validate("Trace_QC.tla", "Trace_QC.cfg", trace, name="%s_valkf_%d" % (name, b0), consts=kf_consts)
            used = res.get("dev") or []
        return b0, trace, res, used

    events = inexact = 0
    futs = []
    with concurrent.futures.ThreadPoolExecutor(max_workers=par) as ex:
        for b0 in range(0, len(behs), batch):
            if any(f.done() and f.exception() is None and f.result()[2]["hw"] != f.result()[2]["len"] + 1 for f in futs):
                break       # an unexplained event was found: report it, do not spend time on the rest
            part = behs[b0:b0 + batch]
            d = run.sub("%s_in_%d" % (name, b0))
            for i, b in enumerate(part):
                with open(os.path.join(d, "b_%d.json" % i), "w") as f:
                    json.dump(b, f)
            trace = os.path.join(run.work, "%s_%d.ndjson" % (name, b0))
            out = run.harness(["replay", "-in", d, "-out", trace, "-par", str(par)])
            shutil.rmtree(d, ignore_errors=True)
            try:
                for k, v in json.loads(out.strip().splitlines()[-1]).items():
                    STATS[k] = STATS.get(k, 0) + v
            except Exception:
                raise vp.Undecided("harness printed no statistics")
            futs.append(ex.submit(validate, b0, trace))
        results = sorted((f.result() for f in futs), key=lambda r: r[0])
    for b0, trace, res, used in results:
        events += res["len"]
        inexact += res.get("inexact", 0)
        if res["hw"] == res["len"] + 1:
            for k in used:
                run.known("key=%s :: %s" % (k, kf.get(k, k)))
            run.cov["traces_validated_against_impl"] = run.cov.get("traces_validated_against_impl", 0) + len(behs[b0:b0 + batch])
        elif not run.violations:
            div = res["div"]
            evs = vp.read_ndjson(trace)
            at = div.get("at", 0)
            ev = evs[at - 1] if 0 < at <= len(evs) else {}
            if ev.get("op") in ("collect", "votemsg"):
                prog = [e for e in evs if e.get("tr") == ev.get("tr") and e.get("op") != "reset" and e.get("i", 0) <= ev.get("i", 0)]
                k = max(i for i, e in enumerate(prog) if e["op"] == "collect")
                prog = prog[k:]
            else:
                prog = [ev]
            if ev.get("op") in ("collect", "votemsg"):
                what = ("vote collection, n=%s: after vote message %s the collector holds %s - certified without a quorum of "
                        "distinct valid member signatures" % (ev.get("n"), json.dumps(ev.get("signs")), json.dumps(div.get("act"))))
            else:
                what = ("%s: the real code answered %s where the specification allows only %s; n=%s %s signs=%s" % (
                    div.get("op"), div.get("actres"), div.get("expres"), ev.get("n"),
                    ("input=%s sum=%s" % (ev.get("input"), ev.get("sum"))) if ev.get("op") == "thr" else
                    ("validator set in force for the certified view %s, for the proposal's view %s" % (ev.get("vc"), ev.get("vp")))
                    if ev.get("op") == "receive" else "", json.dumps(ev.get("signs"))))
            run.violation(what, {"property": "C14", "seed": run.seed,
                                 "program": [{k: v for k, v in e.items() if k not in ("obs", "tr", "i", "why", "route", "res")} for e in prog],
                                 "expected_result": div.get("expres"), "actual_result": div.get("actres"),
                                 "expected": div.get("exp"), "actual": div.get("act"), "known_enabled": sorted(kf_consts)})
        if os.path.exists(trace):
            os.remove(trace)
    run.cov["trace_events"] = run.cov.get("trace_events", 0) + events
    run.cov["inexact_events"] = run.cov.get("inexact_events", 0) + inexact
    return events, inexact


def count_ops(behs, pred):
    return sum(1 for b in behs for o in b if pred(o))


def check(run):
    quick = run.tier == "quick"
    kf = known()
    run.build_harness("c14")
    par = 8 if quick else 12

    if run.replay:
        rp = json.load(open(run.replay))
        replay_validate(run, [rp["program"]], kf, "rp", 1, 1)
        run.finish(require={})

    # (2) validator sets up to 10: TLC simulation (single and multi-signature vote messages), started first
    # and running beside (1)
    pool = concurrent.futures.ThreadPoolExecutor(max_workers=5)
    genjobs = [pool.submit(run.tlc_gen, "Gen_QC.tla", "Gen_QC.cfg", num, 600, name="gen%d" % k, seed=run.seed + k,
                           consts={"MaxSigs": sigs})
               for k, (num, sigs) in enumerate([(25, 1), (15, 3)] if quick else [(60, 1), (60, 1), (40, 3), (40, 3)])]
    # thorough: the set-in-force invariant (ReceiveOK: every non-empty set for the certified view x unchanged / all / the others
    # for the carrying view) for n <= 5 in a model of its own (no vote collection), beside the others; the quick
    # configuration checks it in the main model (n <= 4)
    recvjob = None if quick else pool.submit(run.tlc_mc, "QC.tla", "MC_QC_recv_thorough.cfg", workers=6, timeout=1500)
    # (1) exhaustive model check of the IDEAL design; its state space is the case list
    res, dump, kinds = mc_dump(run, "MC_QC.cfg" if quick else "MC_QC_thorough.cfg", workers=12, timeout=900 if quick else 1500)
    certs, colls = cases_from_dump(dump, kinds)
    os.remove(dump)
    rng = random.Random(run.seed)

    behs = []
    # every enumerated certificate through CheckProposal (standard frame; other frames rotate) and CheckVote
    behs += chunk(pure_ops(certs, run.seed, 7), 1500)
    n_exh = len(behs)
    # every enumerated collector state, by the vote-message history that reaches it
    behs += colls
    # every enumerated certificate of the larger sets delivered as single votes in a seeded order
    big = [c for c in certs if c[0] >= 3 and len(c[1]) >= 2]
    behs += [collection_from_case(rng, n, s) for n, s in rng.sample(big, min(len(big), 1500 if quick else 12000))]
    # the threshold function on 0..12 x 0..12
    behs.append([{"op": "thr", "input": i, "sum": s} for s in range(0, 13) for i in range(0, 13)])
    gen = []
    for j in genjobs:
        gen += j.result()
    if recvjob is not None:
        recvjob.result()
    pool.shutdown()
    behs += gen
    # ... and a seeded sampler for volume
    samp = sampled_cases(rng, kinds, 2500 if quick else 40000, 6, 10)
    behs += chunk(pure_ops(samp, run.seed, 11), 1500)
    behs += [collection_from_case(rng, n, s) for n, s in samp[:400 if quick else 4000]]
    # the validator set in force as a function of the view: enumerated certificates of the larger sets and sampled ones as
    # the justify of a proposal received (real Smr.handleReceivedProposal) at a validator-set change
    rcases = [c for c in certs if c[0] >= 3]
    rcases = rng.sample(rcases, min(len(rcases), 900 if quick else 6000)) + sampled_cases(rng, kinds, 450 if quick else 3000, 5, 10)
    recv = receive_ops(rng, rcases, 2)
    behs += chunk(recv, 300)

    # (3) + (4)
    events, inexact = replay_validate(run, behs, kf, "t", batch=60 if quick else 80, par=par)

    run.samples = [behs[0][:3], colls[-1] if colls else [], gen[0][:8]]
    run.cov["exhaustive"] = True
    run.cov["cases"] = {"certificates_enumerated": len(certs), "collector_states_enumerated": len(colls),
                        "sampled_certificates_n6_10": len(samp), "tlc_generated_behaviours": len(gen),
                        "max_n_exhaustive": max(c[0] for c in certs)}
    run.assumptions += [
        "ECDSA / address derivation are those of the real crypto client; the abstract classes good / other / bad / "
        "malformed / mismatching key are realised by several concrete variants each, chosen by the seed",
        "accepted is judged at the level of the property (a rejection is always explainable, DESIGN R2/R6); events that "
        "differ from the transcribed procedure but respect the property are counted as inexact_events, not reported",
        "the collector's own address is member 1; the collected proposal is a child of the root (view 1)",
        "a third of the standard-frame certificates reach CheckProposal through the real xpoa CheckMinerMatch (stub ledger of "
        "kernel/consensus/mock, static validator set), a third through the block's consensus-storage encoding "
        "(common.NewToOldQC / OldQCToNew), a third directly; tdpos CheckMinerMatch is not driven",
        "validator-set change: the election stub of the real Smr answers GetValidators with the old set up to the certified "
        "view and with the new set from the next view on (any two non-empty subsets of the identities 1..n; below the "
        "certified view the new set again or the complement of the old one); accepted = handleReceivedProposal stored the "
        "proposal in the pending tree. A third of these cases go through the real xpoa CheckMinerMatch instead: block 8 "
        "carrying the certificate of block 7 over a stub ledger whose contract state recorded the old set after block 3 (in "
        "force for height 6, the justify's validators) and the new set after block 4 (in force for height 7, names the "
        "producer). Half of the vote collections run with an election in which members 1..n are in force for the collected "
        "proposal's view only. tdpos CheckMinerMatch is not driven"]
    rc = {"receive_ops": len(recv),
          "set_changes": sum(1 for o in recv if o["vc"] != o["vp"]),
          "set_size_changes": sum(1 for o in recv if len(o["vc"]) != len(o["vp"])),
          "quorum_of_old_set_only": sum(1 for o in recv if _quorum(o["signs"], o["vc"]) and not _quorum(o["signs"], o["vp"])),
          "quorum_of_new_set_only": sum(1 for o in recv if _quorum(o["signs"], o["vp"]) and not _quorum(o["signs"], o["vc"]))}
    rc["tlc_generated_receive_ops"] = count_ops(gen, lambda o: o["op"] == "receive")
    run.cov["validator_set_changes"] = rc
    run.cov["real_code"] = dict(STATS)
    run.finish(require={
        "certificates_on_real_code": (len(certs) + len(samp), 1000),
        "certificates_accepted_by_real_code": (STATS.get("accept_proposal", 0), 100),
        "votes_accepted_by_real_code": (STATS.get("accept_vote", 0), 100),
        "collections_certified_by_real_code": (STATS.get("certified_events", 0), 20),
        "certificates_through_xpoa_CheckMinerMatch": (STATS.get("xpoa_cases", 0), 300),
        "certificates_accepted_by_xpoa_CheckMinerMatch": (STATS.get("accept_xpoa", 0), 20),
        "collections": (count_ops(behs, lambda o: o["op"] == "collect"), 100),
        "vote_messages": (count_ops(behs, lambda o: o["op"] == "votemsg"), 500),
        "threshold_points": (169, 169),
        "proposals_received_at_a_set_change": (rc["set_changes"], 1000),
        "received_with_quorum_of_old_set_only": (rc["quorum_of_old_set_only"], 150),
        "received_with_quorum_of_new_set_only": (rc["quorum_of_new_set_only"], 150),
        "received_set_size_changes": (rc["set_size_changes"], 300),
        "received_accepted_by_real_code": (STATS.get("accept_receive", 0), 150),
        "received_through_xpoa_CheckMinerMatch": (STATS.get("receive_xpoa_cases", 0), 300),
        "received_accepted_by_xpoa_CheckMinerMatch": (STATS.get("accept_receive_xpoa", 0), 50),
        "trace_events": (events, 3000),
    })
