"""C17 - finality window: the irreversible height is monotone and never undone by consensus.

XState.tla with Window = w > 0: IrrDef (irr = max(0, max applied height - w)), IrrMonotone, IrrKept (no non-pruning
walk drops a chain block at or below irr) are model-checked; behaviours with windows 1..3 (and 0), walks that try
to cross the irreversible height, pruning walks and restarts are replayed on the real state machine; GetMeta's
irreversible height, the walk results and the pointer are validated after every step."""
import vp
import xstate_common as xc


def check(run):
    if xc.maybe_replay(run):
        return
    quick = run.tier == "quick"
    run.build_harness()
    run.tlc_mc("XState.tla", "MC_XState_irr.cfg", timeout=3000)
    if not quick:
        run.tlc_mc("XState.tla", "MC_XState_irr2.cfg", timeout=3000)
    few = '{"t1", "t2", "t3", "t4", "p1", "p2"}'
    if quick:
        plans = [dict(num=50, ops=20, window=1, txs=few, maxb=8), dict(num=50, ops=20, window=2, txs=few, maxb=8)]
    else:
        plans = [dict(num=500, ops=24, window=w, txs=few, maxb=9) for w in (1, 2, 3)] + [dict(num=200, ops=20, window=0, txs=few)]
    # chains grown well beyond the window, forked within the last window + 1 blocks, walks between the branches
    plans += [dict(num=40 if quick else 400, ops=26, window=w, txs=few, maxb=11, cfg="Gen_XState_fin.cfg") for w in ((2, 3) if quick else (1, 2, 3, 4))]
    groups = xc.gen(run, plans)
    xc.replay_validate(run, groups)
    # engine level: mining rounds in which the consensus asks for a truncation below / above the irreversible height
    # (Miner.truncateForMiner must walk without the prune flag), pushed chains, restarts; windows 1 and 2
    est = {}
    if not run.violations:
        _, est = xc.engine_phase(run, 40 if quick else 300, ops=36, window=2, mc=False)
    if not run.violations and not quick:
        _, est1 = xc.engine_phase(run, 300, ops=36, window=1, mc=False, tag="w1")
    behs = [b for _, bs, _ in groups for b in bs]
    st = xc.stats(behs)
    ops = [o for b in behs for o in b]
    run.samples = behs[:2]
    run.cov["op_mix"] = dict(st)
    run.cov["windows"] = sorted({p.get("window", 0) for p, _, _ in groups})
    run.finish(require={"walks_refused": (st["walk:fail"], 5), "walks_ok": (st["walk:ok"], 20),
                        "prune_walks": (sum(1 for o in ops if o["op"] == "walk" and o.get("prune")), 5),
                        "restarts": (st["restart:ok"], 5), "engine_truncating_rounds": (est.get("minetrunc:-", 0), 5),
                        "engine_truncations_refused_by_finality": (run.cov.get("engine_trunc_refused", 0), 2), "blocks_applied": (st["play:ok"] + st["mine:ok"] + st["walk:ok"], 40)})
