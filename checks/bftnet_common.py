"""Multi-replica phase of check C15: spec/BftNet.tla bound to NR real Smr instances (harness/cmd/bftnet).

(1) TLC model-checks the IDEAL network design (every replica written like the code on top of the QCTree / QCSmr
    operators; messages delivered in any order, any number of times, or never): commit safety across replicas,
    one vote per view, certificates only with a quorum of voters, one certificate per view, the locking rule,
    HighQC / root / commit / pacemaker monotonicity.  A second run shows that the ACTUAL instantiation (the named
    deviations of the code switched on) is refuted - recorded in the evidence, not a verdict.
(2) TLC simulates Gen_BftNet (with exactly the deviations listed as known): schedules of block production,
    message deliveries (fresh, repeated, stale), block confirmations, rollbacks and - with a byzantine validator -
    injected votes and blocks.
(3) harness/cmd/bftnet executes every schedule on 4 real Smr instances connected by a recording stub network and
    writes, after EVERY step, the projection of EVERY replica and the messages the acting replica sent.
(4) TLC validates the recorded trace against Trace_BftNet (one pass, ACTUAL with the known deviations, `dev`
    records every deviation that changed an outcome -> KNOWN-FINDING lines; a divergence -> VIOLATION).
(5) Binding self-test: the same trace with one recorded field corrupted must be rejected.
(6) The recorded counterexamples of the known deviations (replays/BftNet-*.json) are re-executed: accepted by
    ACTUAL, and TLC evaluates the violated safety invariant on the recorded trace.
"""
import concurrent.futures
import json
import os
import re
import shutil
import subprocess

import vp
from _tlcdump import known as _known_c15

KF_DESC = {
    "KF_VoteWindow": "DefaultSaftyRules.VoteProposal refuses a proposal only if its round is below lastVoteRound - 3: a replica "
                     "votes for several proposals of one view (and for lower views); two proposals of one view are certified and, "
                     "four views later, honest replicas hold conflicting CommitQC / roots although all four validators are honest "
                     "(replays/BftNet-KF_VoteWindow.json)",
    "KF_LockWindow": "DefaultSaftyRules.VoteProposal refuses a proposal only if its justify is below preferredRound - 3: the "
                     "locking rule lets a replica vote for a proposal whose justify is up to three views below its lock",
    "KF_ImplicitCollector": "handleReceivedVoteMsg / CheckProposal count the collector itself (input+1) whether or not it voted: a "
                            "certificate forms with 2 of 4 validators having voted (replays/BftNet-KF_ImplicitCollector.json)",
}
KF_ALL = ["KF_OrphanFirstMatchOnly", "KF_StaleMarkers", "KF_VoteWindow", "KF_LockWindow", "KF_ImplicitCollector"]


def known_bft():
    """Deviations listed as known for C15: KNOWN_FINDINGS.txt, findings/C15.known and findings/BftNet.known (proposed
    lines; VERIF_NO_PROPOSED_KNOWN=1 ignores the proposed ones)."""
    out = dict(_known_c15("C15"))
    extra = os.path.join(vp.VERIF, "findings", "BftNet.known")
    if os.path.exists(extra) and not os.environ.get("VERIF_NO_PROPOSED_KNOWN"):
        for line in open(extra):
            m = re.match(r"known:\s+property=C15\s+(.*?)\s*::\s*(.*)$", line.strip())
            km = re.search(r"key=(\S+)", m.group(1)) if m else None
            if km:
                out.setdefault(km.group(1), m.group(2))
    return {k: v for k, v in out.items() if k in KF_ALL}


def kf_consts(kf):
    return {k: ("TRUE" if k in kf else "FALSE") for k in KF_ALL}


def _driver(run, binary, args, timeout=900):
    """Run the bftnet driver (same protocol as vp.Run.harness, own binary): a crash of the driver is exit 2, a Go panic
    inside the repository's code is a behaviour no specification explains."""
    env = dict(vp.GOENV, VERIF_SEED=str(run.seed), VERIF_TIER=run.tier, VERIF_WORK=run.sub("go_bftnet"))
    try:
        p = subprocess.run([binary] + [str(a) for a in args], cwd=run.work, env=env, stdout=subprocess.PIPE,
                           stderr=subprocess.PIPE, text=True, timeout=timeout)
    except subprocess.TimeoutExpired:
        raise vp.Undecided("bftnet driver timed out")
    if p.returncode != 0:
        vp.log(p.stdout[-2000:])
        vp.log(p.stderr[-6000:])
        crash = vp.real_code_panic(p.stderr)
        if crash:
            return None, crash
        raise vp.Undecided("bftnet driver failed (exit %d): %s" % (p.returncode, " ".join(map(str, args))))
    try:
        return json.loads(p.stdout.strip().splitlines()[-1]), None
    except Exception:
        raise vp.Undecided("bftnet driver printed no statistics")


def schedule_stats(events):
    """Counts over a recorded trace: deliveries that repeat an earlier one (duplicates), messages sent but never
    delivered (drops), deliveries that overtake a message sent earlier to the same replica (out of order)."""
    st = {"duplicates": 0, "drops": 0, "out_of_order": 0, "deliveries": 0, "messages": 0, "double_votes": 0,
          "conflicting_decisions": 0}
    sent, first, votes, par = {}, {}, {}, {}
    n, bad = 0, False

    def close():
        st["messages"] += len(sent)
        st["drops"] += sum(1 for k in sent if k not in first)

    def anc(x):
        out = set()
        while x is not None and x >= 0:
            out.add(x)
            x = par.get(x) if x > 0 else None
        return out

    for ev in events:
        op = ev["op"]
        if op == "init":
            close()
            sent, first, votes, par, n, bad = {}, {}, {}, {}, 0, False
            continue
        i = ev["i"]
        for m in ev.get("sp", []):
            sent.setdefault(("p", m["to"], m["p"]), i)
        for m in ev.get("sv", []):
            sent.setdefault(("v", m["to"], m["p"], m["src"]), i)
            vs = votes.setdefault(m["src"], {})
            if m["v"] in vs and vs[m["v"]] != m["p"]:
                st["double_votes"] += 1
            vs.setdefault(m["v"], m["p"])
        if op == "propose" and ev["res"] == "ok" and ev["sp"]:
            n += 1
            par[n] = ev["sp"][0]["q"]
        elif op == "byzprop":
            n += 1
            par[n] = ev["q"]
            for to in range(1, len(ev["obs"]) + 1):
                if to != ev["byz"]:
                    sent.setdefault(("p", to, n), i)
        elif op == "byzvote":
            sent.setdefault(("v", ev["to"], ev["p"], ev["byz"]), i)
        elif op in ("dprop", "dvote") and ev["res"] != "nomsg":
            k = ("p", ev["to"], ev["p"]) if op == "dprop" else ("v", ev["to"], ev["p"], ev["src"])
            st["deliveries"] += 1
            if k in first:
                st["duplicates"] += 1
            else:
                first[k] = i
                if any(k2[1] == k[1] and s2 < sent.get(k, i) and k2 not in first for k2, s2 in sent.items()):
                    st["out_of_order"] += 1
        if not bad:
            dec = [{o["t"]["root"]} | ({o["t"]["commit"]} if o["t"]["commit"] >= 0 else set()) for o in ev["obs"]]
            for a in range(len(dec)):
                for b in range(a + 1, len(dec)):
                    if any(x not in anc(y) and y not in anc(x) for x in dec[a] for y in dec[b]):
                        bad = True
            if bad:
                st["conflicting_decisions"] += 1
    close()
    return st


def _program(events, tr, upto=None):
    return [{k: v for k, v in e.items() if k not in ("obs", "tr", "i", "sp", "sv", "res")}
            for e in events if e.get("tr") == tr and e["op"] != "init" and (upto is None or e["i"] <= upto)]


def _report(run, res, trace, consts, what_for):
    """A rejected trace: VIOLATION with a replay file holding the schedule up to the first unexplained step."""
    div = res["div"]
    evs = vp.read_ndjson(trace)
    if not div.get("at"):
        keep = os.path.join(vp.VERIF, ".work", "stuck-C15-bftnet-%d.ndjson" % run.seed)
        shutil.copy(trace, keep)
        raise vp.Undecided("Trace_BftNet has no enabled action at line %d (trace kept: %s)" % (res["hw"], keep))
    at = div["at"]
    ev = evs[at - 1] if 0 < at <= len(evs) else {}
    exp, act = div.get("exp") or {}, div.get("act") or {}
    diff = []
    for k in sorted(set(exp) | set(act)):
        if exp.get(k) != act.get(k):
            if isinstance(exp.get(k), dict) and isinstance(act.get(k), dict):
                diff += ["%s.%s: specification %s, real code %s" % (k, kk, json.dumps(exp[k].get(kk)), json.dumps(act[k].get(kk)))
                         for kk in sorted(set(exp[k]) | set(act[k])) if exp[k].get(kk) != act[k].get(kk)]
            else:
                diff.append("%s: specification %s, real code %s" % (k, json.dumps(exp.get(k)), json.dumps(act.get(k))))
    what = "bftnet %s schedule %s, step %s (%s %s): %s differs%s; result %s (specification: %s); %s" % (
        what_for, ev.get("tr"), ev.get("i"), ev.get("op"),
        json.dumps({k: ev[k] for k in ("r", "to", "p", "src", "t", "q") if k in ev}), div.get("which"),
        (" at replica %s" % div.get("node")) if div.get("node") else "", div.get("actres"), div.get("expres"), "; ".join(diff[:6]))
    run.violation(what, {"property": "C15", "phase": "bftnet", "seed": run.seed, "consts": consts,
                         "program": _program(evs, ev.get("tr"), ev.get("i")), "first_unexplained_event": ev.get("i"),
                         "which": div.get("which"), "replica": div.get("node"), "expected": exp, "actual": act,
                         "expected_result": div.get("expres"), "actual_result": div.get("actres")})


def _write_behs(run, behs, name):
    d = run.sub(name)
    for f in os.listdir(d):
        os.remove(os.path.join(d, f))
    for i, b in enumerate(behs):
        with open(os.path.join(d, "b_%d.json" % i), "w") as f:
            json.dump(b, f)
    return d


def replay_validate(run, binary, behs, consts, name, kf, batch, par, stats, sched):
    """Execute schedules on the real replicas in batches and validate every batch (batches concurrently).
    Returns (events, traces kept for the self-test)."""
    def one(b0):
        part = behs[b0:b0 + batch]
        d = _write_behs(run, part, "%s_in_%d" % (name, b0))
        trace = os.path.join(run.work, "%s_%d.ndjson" % (name, b0))
        st, crash = _driver(run, binary, ["replay", "-in", d, "-out", trace])
        shutil.rmtree(d, ignore_errors=True)
        if crash:
            return b0, trace, None, None, crash, len(part)
        evs = vp.read_ndjson(trace)
        res = run.tlc_validate("Trace_BftNet.tla", "Trace_BftNet.cfg", trace, name="%s_val_%d" % (name, b0), consts=consts)
        return b0, trace, res, (st, schedule_stats(evs)), None, len(part)

    events, keep = 0, None
    with concurrent.futures.ThreadPoolExecutor(max_workers=par) as ex:
        results = sorted(ex.map(one, range(0, len(behs), batch)), key=lambda r: r[0])
    for b0, trace, res, sts, crash, nb in results:
        if crash:
            if not run.violations:
                run.violation("the real code panicked in %s (%s) while the bftnet driver executed a schedule" % (crash["func"], crash["msg"]),
                              {"property": "C15", "phase": "bftnet", "panic": crash["msg"], "stack": crash["stack"], "seed": run.seed,
                               "consts": consts, "programs": behs[b0:b0 + batch][:50]})
            continue
        events += res["len"]
        for src, dst in ((sts[0], stats), (sts[1], sched)):
            for k, v in src.items():
                dst[k] = dst.get(k, 0) + v
        if res["hw"] == res["len"] + 1:
            for k in res.get("dev") or []:
                run.known("key=%s :: %s" % (k, kf.get(k) or KF_DESC.get(k, k)))
            run.cov["traces_validated_against_impl"] = run.cov.get("traces_validated_against_impl", 0) + nb
            if keep is None:
                keep = trace
                continue
        elif not run.violations:
            _report(run, res, trace, consts, name)
        if os.path.exists(trace) and trace != keep:
            os.remove(trace)
    run.cov["trace_events"] = run.cov.get("trace_events", 0) + events
    return events, keep


CORRUPTIONS = ["lastVote", "vote_dropped", "high", "pview", "votes", "res"]


def corrupt(events, how, seed):
    """One recorded field changed (the binding self-test): returns (events, line number) or None."""
    evs = json.loads(json.dumps(events))
    idx = list(range(len(evs)))
    idx = idx[seed % max(1, len(idx)):] + idx[:seed % max(1, len(idx))]
    for i in idx:
        e = evs[i]
        if e["op"] == "init":
            continue
        if how == "vote_dropped" and e.get("sv"):
            e["sv"] = e["sv"][1:]
        elif how == "lastVote" and e["op"] == "dprop" and e["res"] == "ok":
            e["obs"][e["to"] - 1]["lastVote"] += 1
        elif how == "high" and e["op"] == "dvote" and e["res"] == "ok":
            o = e["obs"][e["to"] - 1]["t"]
            o["high"] = 0 if o["high"] != 0 else 1
        elif how == "pview" and e["op"] == "dprop" and e["res"] == "ok":
            e["obs"][e["to"] - 1]["t"]["pview"] += 1
        elif how == "votes" and e["op"] == "dvote" and e["res"] == "ok":
            v = e["obs"][e["to"] - 1]["votes"][e["p"] - 1]
            if not v:
                continue
            e["obs"][e["to"] - 1]["votes"][e["p"] - 1] = v[:-1]
        elif how == "res" and e["op"] == "dvote" and e["res"] in ("ok", "reject"):
            e["res"] = "reject" if e["res"] == "ok" else "ok"
        else:
            continue
        return evs, i + 1
    return None


def self_test(run, trace, consts, hows):
    """Binding self-test: a prefix of a validated trace with ONE recorded field corrupted must be rejected at that line."""
    evs = vp.read_ndjson(trace)
    cut = next((i for i, e in enumerate(evs) if e["op"] == "init" and i > 400), len(evs))
    evs = evs[:cut]

    def one(how):
        c = corrupt(evs, how, run.seed * 7919 + 13)
        if c is None:
            return how, None, None
        t = os.path.join(run.work, "bft_selftest_%s.ndjson" % how)
        vp.write_ndjson(t, c[0])
        res = run.tlc_validate("Trace_BftNet.tla", "Trace_BftNet.cfg", t, name="bft_st_" + how, consts=consts)
        os.remove(t)
        return how, c[1], res
    out = {}
    with concurrent.futures.ThreadPoolExecutor(max_workers=len(hows)) as ex:
        for how, line, res in ex.map(one, hows):
            if res is None:
                continue
            if res["hw"] == res["len"] + 1 or (res["div"].get("at") or 0) != line:
                raise vp.Undecided("binding self-test: the trace with a corrupted %s at line %s was not rejected there "
                                   "(hw=%s len=%s div.at=%s)" % (how, line, res["hw"], res["len"], res["div"].get("at")))
            out[how] = line
    if not out:
        raise vp.Undecided("binding self-test: no corruption could be applied")
    return out


def run_demo(run, binary, path, consts, kf):
    """Re-execute the recorded counterexample of a known deviation on the real replicas: the trace must be accepted by
    ACTUAL (with the deviation), and TLC evaluates the named safety invariant on the recorded behaviour (violated =
    the defect is still there).  Returns a record for the evidence."""
    rp = json.load(open(path))
    key = rp["key"]
    tag = os.path.basename(path)[:-5].replace("BftNet-", "")
    d = _write_behs(run, [rp["program"]], "demo_" + tag)
    trace = os.path.join(run.work, "demo_%s.ndjson" % tag)
    _, crash = _driver(run, binary, ["replay", "-in", d, "-out", trace])
    if crash:
        raise vp.Undecided("the counterexample of %s panics in the real code" % key)
    c = dict(consts)
    c.update(rp.get("consts") or {})
    res = run.tlc_validate("Trace_BftNet.tla", "Trace_BftNet.cfg", trace, name="demo_val_" + tag, consts=c)
    rec = {"key": key, "file": os.path.basename(path), "steps": res["len"], "accepted": res["hw"] == res["len"] + 1, "deviations_used": res.get("dev")}
    if not rec["accepted"]:
        if key in kf and not run.violations:
            _report(run, res, trace, c, "counterexample " + key)
        return rec
    for k in res.get("dev") or []:
        run.known("key=%s :: %s" % (k, kf.get(k) or KF_DESC.get(k, k)))
    # the invariant on the recorded behaviour (TLC stops at the violating state)
    dd = run._tlc_dir("demo_inv_" + tag, [])
    cfgtxt = vp._apply_consts(open(os.path.join(vp.SPEC, "Trace_BftNet.cfg")).read(), c) + "\nINVARIANTS %s\n" % rp["invariant"]
    with open(os.path.join(dd, "Trace_BftNet.cfg"), "w") as f:
        f.write(cfgtxt)
    shutil.copy(trace, os.path.join(dd, "trace.ndjson"))
    rc, out, dt = run._tlc(dd, ["-workers", "1", "-config", "Trace_BftNet.cfg", "Trace_BftNet.tla"], 600)
    rec["invariant"] = rp["invariant"]
    rec["violated_on_real_trace"] = ("Invariant %s is violated" % rp["invariant"]) in out
    st = schedule_stats(vp.read_ndjson(trace))
    rec["conflicting_decisions_on_real_replicas"] = st["conflicting_decisions"]
    shutil.rmtree(dd, ignore_errors=True)
    os.remove(trace)
    return rec


def build(run):
    """Build the bftnet driver (call from the main thread: vp.Run.build_harness sets run.vh, restored here)."""
    saved = run.vh
    binary = run.build_harness("bftnet")
    run.vh = saved
    return binary


def bftnet_replay(run, rp):
    """./check C15 --replay <file of this phase>"""
    kf = known_bft()
    binary = build(run)
    consts = kf_consts(kf)
    consts.update({k: v for k, v in (rp.get("consts") or {}).items() if not k.startswith("KF_")})
    stats, sched = {}, {}
    replay_validate(run, binary, [rp["program"]], consts, "bftrp", kf, 1, 1, stats, sched)
    run.cov["bftnet_replay"] = {"real_code": stats, "schedule": sched}


def bftnet_phase(run, quick, binary=None):
    """See the module docstring.  Returns the exercise counters for run.finish(require=...)."""
    kf = known_bft()
    consts = kf_consts(kf)
    binary = binary or build(run)
    pool = concurrent.futures.ThreadPoolExecutor(max_workers=12)
    # (2) schedules: four honest replicas; three honest replicas and a byzantine validator; three of four alive
    h4 = {"Live": "{1, 2, 3, 4}", "Byz": "0"}
    bz = {"Live": "{1, 2, 3}", "Byz": "4"}
    h3 = {"Live": "{1, 2, 3}", "Byz": "0"}
    if quick:
        plans = [("h4w", h4, "wide", 24, 70, 9), ("h4d", h4, "deep", 20, 100, 14), ("bzw", bz, "wide", 10, 60, 8), ("bzd", bz, "deep", 6, 90, 12)]
    else:
        plans = [("h4w", h4, "wide", 400, 70, 9), ("h4d", h4, "deep", 400, 110, 16), ("bzw", bz, "wide", 250, 60, 8),
                 ("bzd", bz, "deep", 200, 100, 13), ("h3w", h3, "wide", 250, 70, 9)]
    gens = []
    for k, (name, net, mode, num, ops, mp) in enumerate(plans):
        c = dict(consts)
        c.update(net)
        c.update({"MaxOps": ops, "MaxProps": mp, "GenMode": '"%s"' % mode})
        gens.append((name, net, pool.submit(run.tlc_gen, "Gen_BftNet.tla", "Gen_BftNet.cfg", num, ops + 2, name="bgen_" + name,
                                            seed=run.seed * 131 + 7 + k, consts=c, timeout=1500)))
    # (1) the IDEAL design, exhaustively (beside the rest); the ACTUAL instantiation is refuted (evidence only)
    mcs = ["MC_BftNet.cfg", "MC_BftNet_conf.cfg"] if quick else ["MC_BftNet_byz.cfg", "MC_BftNet_thorough.cfg", "MC_BftNet.cfg", "MC_BftNet_conf.cfg"]
    # (spec/MC_BftNet_lag1.cfg - the pipeline with messages up to one view late, 333,827 states, 6-10 min - is not run here)
    mcjobs = [pool.submit(run.tlc_mc, "BftNet.tla", cfg, workers=(4 if quick else 5), timeout=1700) for cfg in mcs]

    def actual():
        d = run._tlc_dir("mc_bftnet_actual", ["MC_BftNet_actual.cfg"])
        rc, out, dt = run._tlc(d, ["-workers", "2", "-config", "MC_BftNet_actual.cfg", "BftNet.tla"], 600)
        shutil.rmtree(d, ignore_errors=True)
        m = re.search(r"Invariant (\w+) is violated", out)
        return m.group(1) if m else None
    actjob = pool.submit(actual)

    # (3) + (4)
    stats, sched, events, keep, nbeh = {}, {}, 0, None, 0
    samples = []
    for name, net, job in gens:
        behs = job.result()
        nbeh += len(behs)
        samples.append([{k: v for k, v in o.items() if k not in ("sp", "sv")} for o in behs[0][:14]])
        if run.violations:
            continue
        c = dict(consts)
        c.update(net)
        ev, kp = replay_validate(run, binary, behs, c, "bft_" + name, kf, 25 if quick else 60, 4 if quick else 8, stats, sched)
        events += ev
        if keep is None and kp and net is h4:
            keep = (kp, c)
    out = {"bftnet_events": events, "bftnet_schedules": nbeh}
    if not run.violations:
        # (5) binding self-test and (6) recorded counterexamples of the known deviations, side by side
        if keep is None:
            raise vp.Undecided("no validated bftnet trace to run the binding self-test on")
        hows = CORRUPTIONS[:2] if quick else CORRUPTIONS
        stjob = pool.submit(self_test, run, keep[0], keep[1], hows)
        demos = [pool.submit(run_demo, run, binary, os.path.join(vp.REPLAYS, fn), consts, kf)
                 for fn in sorted(os.listdir(vp.REPLAYS)) if fn.startswith("BftNet-KF_") and fn.endswith(".json")]
        run.cov["bftnet_binding_self_test"] = stjob.result()
        run.cov["bftnet_counterexamples"] = [j.result() for j in demos]
    for j in mcjobs:
        j.result()
    run.cov["bftnet_actual_model_refuted"] = actjob.result()
    pool.shutdown()
    run.cov["bftnet"] = {"real_code": stats, "schedule": sched, "known_deviations_enabled": sorted(kf), "validators": 4}
    run.samples = (run.samples or []) + samples[:1]
    run.assumptions += [
        "bftnet: 4 validators, Election.GetLeader(round) = validator (round mod 4) + 1; a message addressed to the sender itself is "
        "not delivered (the p2p layer has no connection from a node to itself)",
        "bftnet: a producer calls ProcessProposal(view of its HighQC + 1, new id) and then confirms its own block "
        "(UpdateJustifyQcStatus + UpdateQcStatus); other replicas confirm a block after CheckProposal as CheckMinerMatch does",
        "bftnet: the byzantine validator signs only as itself: votes for any proposal to anybody, blocks below any proposal "
        "justified by the signatures of votes that exist in the network plus its own"]
    out.update({
        "bftnet_qcs_formed_on_real_replicas": stats.get("qcs_formed", 0),
        "bftnet_commits_on_real_replicas": stats.get("root_moves", 0) + stats.get("commit_marker_moves", 0),
        "bftnet_votes_cast": stats.get("votes_cast", 0),
        "bftnet_out_of_order_deliveries": sched.get("out_of_order", 0),
        "bftnet_duplicate_deliveries": sched.get("duplicates", 0),
        "bftnet_dropped_messages": sched.get("drops", 0),
    })
    return out


def thresholds(c, quick):
    """Vacuity thresholds of the phase for run.finish(require=...)."""
    q = quick
    return {
        "bftnet_events": (c["bftnet_events"], 4000 if q else 100000),
        "bftnet_qcs_formed_on_real_replicas": (c["bftnet_qcs_formed_on_real_replicas"], 120 if q else 5000),
        "bftnet_commits_on_real_replicas": (c["bftnet_commits_on_real_replicas"], 250 if q else 8000),
        "bftnet_votes_cast": (c["bftnet_votes_cast"], 450 if q else 15000),
        "bftnet_out_of_order_deliveries": (c["bftnet_out_of_order_deliveries"], 200 if q else 6000),
        "bftnet_duplicate_deliveries": (c["bftnet_duplicate_deliveries"], 300 if q else 9000),
        "bftnet_dropped_messages": (c["bftnet_dropped_messages"], 150 if q else 5000),
    }
