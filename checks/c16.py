"""C16 - only the entitled producer's block is accepted (slot schedule, single, PoW).

Slot schedules and single (spec/Schedule.tla):
 (1) TLC model-checks the clock walk of every configuration of the parameter box (every millisecond of
     three terms, first and last nanosecond) against the tiling / entitlement invariants.
 (2) TLC writes every walk (configuration, sampled instants, single-miner candidate cases) as JSON.
 (3) harness/cmd/c16 `sched` evaluates the REAL tdpos / xpoa minerScheduling (export shims) and the real
     CheckMinerMatch of tdpos / xpoa / single for candidate blocks of every proposer at every instant,
     once with the model's timestamps and once shifted to a realistic epoch.
 (4) TLC validates the recorded results against the same specification (Trace_Schedule.tla).
The validator set in force for the candidate block is a dimension of the box: besides the basic walks
(candidate height 2 on the genesis block, the configured initial set) there are walks on chains that
record validator sets / election results differing from the initial set and from the verifying node's
own current set in size, membership and order, at every candidate height around the bootstrap
threshold and above it (XPoA), in the tip's term and in later terms (TDPoS). The driver's stub ledger
serves the records through the calls the plugins make (QueryBlockByHeight, CreateSnapshot(id).Get,
GetTipXMSnapshotReader, consensus storage of stored blocks); candidates come from the empty proposer,
every member of every set and an outsider. The two pipelines (schedule, proof of work) run concurrently.
Proof of work (spec/SchedulePow.tla): the same four stages for every chain of block intervals up to
2*gap+k blocks (miner's target, CheckMinerMatch of the mined block and of a list of candidate blocks on
every tip, bitcoin-compact and legacy targets, sizes shifted by 26 bytes) and for a sweep of compact
encodings through the real GetCompact / SetCompact. The candidate's parent is a dimension: besides the
tip, the tip's parent (a competitor of the tip), two stored competitors of the tip (newer / not newer than
the tip), the tip and the last but one block of the chain the node followed before (a stored side branch)
and a block the node does not know; timestamps are placed relative to the parent and relative to the tip,
the prescribed target and the timestamp rule follow the candidate's own ancestry."""
import copy, json, os, re, threading, time
import vp
import tracecheck

KF = {  # KNOWN_FINDINGS key -> boolean constant of the trace specification
    "tdpos-pre-init-slot": ("sched", "KF_TdposPreInit"),
    "xpoa-negative-timestamp": ("sched", "KF_XpoaNegativeTs"),
    "tdpos-term-set-offset": ("sched", "KF_TdposTermSetOffset"),
    "pow-grandparent-target": ("pow", "KF_PowGrandparentBits"),
}
OWN_KNOWN = os.path.join(vp.VERIF, "findings", "C16.known")


def _known():
    """known: lines of /verif/KNOWN_FINDINGS.txt and of findings/C16.known (the proposal file of this check, same
    format; VERIF_NO_PROPOSED_KNOWN=1 ignores it); VERIF_C16_PROPOSED_KF names one more file for dry runs."""
    known = dict(vp.known_keys("C16"))
    files = [os.environ.get("VERIF_C16_PROPOSED_KF")]
    if not os.environ.get("VERIF_NO_PROPOSED_KNOWN"):
        files.append(OWN_KNOWN)
    for extra in files:
        if extra and os.path.exists(extra):
            for line in open(extra):
                m = re.match(r"known:\s+property=C16\s+key=(\S+).*?::\s*(.*)$", line.strip())
                if m:
                    known.setdefault(m.group(1), m.group(2))
    return known


def _cfg_with(run, cfg, consts, name):
    """A copy of spec/<cfg> with constants replaced (absolute path, accepted by run.tlc_mc)."""
    txt = open(os.path.join(vp.SPEC, cfg)).read()
    for k, v in consts.items():
        txt = re.sub(r"(?m)^(\s*%s\s*=\s*).*$" % re.escape(k), r"\g<1>%s" % v, txt)
    path = os.path.join(run.sub("cfg"), name)
    with open(path, "w") as f:
        f.write(txt)
    return path


def _generate(run, module, cfg, name, workers):
    """Exhaustive (breadth-first) generation: the cfg's Dump constraint writes every complete walk."""
    out = run.sub(name + "/out")
    for f in os.listdir(out):
        os.remove(os.path.join(out, f))
    res = run.tlc_mc(module, cfg, name=name, workers=workers, timeout=1500)
    mc = run.cov["model_checks"].pop()          # a generation run, not a verification run
    run.cov["states"] -= mc["distinct"]
    run.cov["transitions"] -= mc["generated"]
    files = sorted(os.listdir(out), key=lambda f: int(re.sub(r"\D", "", f) or 0))
    if not files:
        raise vp.Undecided("TLC generation produced no walks (%s)" % module)
    behs = []
    for fn in files:
        with open(os.path.join(out, fn)) as f:
            behs.append(json.load(f))
    run.cov.setdefault("generation", []).append({"module": module, "walks": len(behs), "states": res["distinct"],
                                                  "wall_s": res["wall_s"], "exhaustive": True})
    return behs


def _stats(path):
    tot = {}
    if os.path.exists(path):
        for line in open(path):
            for k, v in json.loads(line).items():
                tot[k] = tot.get(k, 0) + v
    return tot


def check(run):
    quick = run.tier == "quick"
    t0 = [time.time()]
    phases = run.cov.setdefault("phase_s", {})

    def phase(name):
        phases[name] = round(time.time() - t0[0], 1)
        t0[0] = time.time()
    workers = 16
    known = _known()
    run.build_harness("c16")

    if run.replay:
        rp = json.load(open(run.replay))
        part = rp["driver"]
        kfc = {c: "TRUE" for k, (p, c) in KF.items() if p == part and k in known}
        tracecheck.replay_and_validate(run, [rp["program"]], driver=part, driver_args=[],
                                       trace_module=rp["trace_module"], trace_cfg=rp["trace_cfg"], name="rp",
                                       kf_consts=kfc or None, kf_desc=known)
        run.finish()

    # The slot-schedule pipeline and the proof-of-work pipeline are independent (own specifications, own drivers); the
    # first runs in a side thread on a shadow of the run object (own scratch directory and coverage record, the verdict
    # lists are shared), the second in this thread. Verdicts and counters do not depend on the interleaving.
    side = copy.copy(run)
    side.cov = {}
    side.work = run.sub("schedule")
    sstats = os.path.join(side.work, "sched_stats.ndjson")
    pstats = os.path.join(run.work, "pow_stats.ndjson")
    failure = []

    def schedule_pipeline():
        t1 = time.time()
        try:
            # (1) the design: exhaustive model checking of the IDEAL specification
            side.tlc_mc("Schedule.tla", "MC_Schedule.cfg" if quick else "MC_Schedule_thorough.cfg", workers=workers, timeout=1500)
            phases["schedule_model_checking"] = round(time.time() - t1, 1)
            # (2)-(4) slot schedules and single
            behs = _generate(side, "Gen_Schedule.tla", "Gen_Schedule.cfg" if quick else "Gen_Schedule_thorough.cfg", "gen_sched", workers)
            kfs = {c: "TRUE" for k, (p, c) in KF.items() if p == "sched" and k in known}
            tracecheck.replay_and_validate(side, behs, driver="sched", driver_args=["-stats", sstats],
                                           trace_module="Trace_Schedule.tla", trace_cfg="Trace_Schedule.cfg", name="sched",
                                           kf_consts=kfs or None, kf_desc=known, batch=400)
            side.samples.append([e for e in behs[len(behs) // 2][:6]])
            side.samples.append([e for e in [b for b in behs if b[0]["cfg"]["rec"]][-1][:4]])
        except BaseException as e:      # re-raised in the main thread (Undecided -> exit 2)
            failure.append(e)
        phases["schedule_pipeline"] = round(time.time() - t1, 1)

    th = threading.Thread(target=schedule_pipeline, name="c16-schedule")
    th.start()
    try:
        # (1) proof of work: the design
        run.tlc_mc("SchedulePow.tla", _cfg_with(run, "MC_SchedulePow.cfg" if quick else "MC_SchedulePow_thorough.cfg",
                                                {"Seed": run.seed}, "MC_SchedulePow_seed.cfg"),
                   name="mc_pow", workers=workers, timeout=1500)
        if not quick:
            # thorough: the large box without a stored side branch (competitors of the tip, children of stored competitors and
            # unknown parents on every chain) and the small box with all three shapes of a stored side branch
            run.tlc_mc("SchedulePow.tla", _cfg_with(run, "MC_SchedulePow_sides.cfg", {"Seed": run.seed}, "MC_SchedulePow_sides_seed.cfg"),
                       name="mc_pow_sides", workers=workers, timeout=1500)
        phase("pow_model_checking")
        # (2)-(4) proof of work
        pbehs = _generate(run, "Gen_SchedulePow.tla",
                          _cfg_with(run, "Gen_SchedulePow.cfg" if quick else "Gen_SchedulePow_thorough.cfg",
                                    {"Seed": run.seed}, "Gen_SchedulePow_seed.cfg"), "gen_pow", workers)
        kfc = {c: "TRUE" for k, (p, c) in KF.items() if p == "pow" and k in known}
        tracecheck.replay_and_validate(run, pbehs, driver="pow",
                                       driver_args=["-stats", pstats, "-forkevery", "2" if quick else "8"],
                                       trace_module="Trace_SchedulePow.tla", trace_cfg="Trace_SchedulePow.cfg", name="pow",
                                       kf_consts=kfc or None, kf_desc=known, batch=8000)
        chains = [b for b in pbehs if b[0]["cfg"]["mode"] != "compact"]
        if chains:
            run.samples.append([{k: v for k, v in e.items() if k not in ("cands", "cb", "acc")} for e in chains[len(chains) // 2][:8]])
        phase("pow_conformance")
    finally:
        th.join()
    if failure:
        raise failure[0]
    # merge the side thread's coverage record
    for k, v in side.cov.items():
        if isinstance(v, list):
            run.cov[k] = v + run.cov.get(k, [])
        elif isinstance(v, (int, float)) and not isinstance(v, bool):
            run.cov[k] = run.cov.get(k, 0) + v
        else:
            run.cov.setdefault(k, v)
    s, p = _stats(sstats), _stats(pstats)
    run.cov["real_operations"] = s.get("Instants", 0) + s.get("Checks", 0) + s.get("SingleCases", 0) + \
        p.get("Mined", 0) * 2 + p.get("CandChecks", 0) + p.get("CompactCases", 0)
    run.cov["exhaustive"] = True
    run.cov["schedule"] = s
    run.cov["pow"] = p
    run.assumptions += [
        "validator sets in force are read by the real plugins from a stub ledger (QueryBlockByHeight, CreateSnapshot(blockid).Get, "
        "GetTipXMSnapshotReader, block consensus storage) that stores what the xpoa / tdpos contracts record (xpoa: <version>_validates; "
        "tdpos: nominate and vote records whose top proposer_num is the modelled election result); the contracts that write these "
        "records (editValidates, nominate / vote, ballots arithmetic) are not part of C16",
        "xpoa without bft_config (the rollback height in the consensus storage of chained-bft blocks is not driven); tdpos: candidate "
        "blocks extend the tip (height tip+1), stored blocks carry the term of their own timestamp; a candidate whose timestamp lies in "
        "a term before the tip's term is not judged",
        "big-integer arithmetic of math/big and the ECDSA primitives are trusted; targets are exercised on the domain "
        "below 2^31 and shifted by 26 bytes (values >= 2^16, where the code's arithmetic commutes with the shift); "
        "the compact sweep covers all sizes for boundary and seeded words, not all 2^32 encodings",
        "stub ledger / block / network objects implement the plugin-facing interfaces (a linear main chain plus side-branch blocks "
        "reachable by id only)",
        "pow fork candidates: parents are the tip's parent, two stored competitors of the tip (stamped half a second after the tip / "
        "like their own parent), the tip and the last but one block of the chain the node followed before (stored side branch, read "
        "back from the ledger into the trace); declared targets are taken from stored blocks (parent, grandparent, tip) or from the "
        "miner's answer for the tip's child, so at a retarget height of a side branch an accepted candidate exists only where one of "
        "these coincides with the prescribed target",
    ]
    run.finish(require={
        "schedule_configurations": (s.get("Configs", 0), 1000 if quick else 5000),
        "schedule_instants": (s.get("Instants", 0), 50000),
        "slot_boundaries": (s.get("Boundaries", 0), 5000),
        "candidates_accepted": (s.get("Accepted", 0), 20000),
        "candidates_rejected": (s.get("Rejected", 0), 100000),
        "single_cases": (s.get("SingleCases", 0), 216),
        # the validator-set dimension (measured on the real instances: the node's own set is read through GetConsensusStatus,
        # recorded sets count only when the real lookup fetched them from the stub's snapshots)
        "validator_set_chain_walks": (s.get("ChainWalks", 0), 500),
        "walks_served_a_recorded_set": (s.get("RecordedServedWalks", 0), 400),
        "checks_set_in_force_differs_in_size_from_node_set": (s.get("SizeDiffChecks", 0), 30000),
        "accepted_where_sizes_differ": (s.get("SizeDiffAccepted", 0), 4000),
        "rejected_where_sizes_differ": (s.get("SizeDiffRejected", 0), 25000),
        "checks_set_in_force_smaller_than_node_set": (s.get("InForceSmaller", 0), 10000),
        "checks_set_in_force_larger_than_node_set": (s.get("InForceLarger", 0), 10000),
        "checks_same_size_other_members_or_order": (s.get("OrderDiffChecks", 0), 50000),
        "accepted_same_size_other_members_or_order": (s.get("OrderDiffAccepted", 0), 5000),
        "checks_bootstrap_heights_on_recording_chain": (s.get("BootstrapChecks", 0), 30000),
        "accepted_bootstrap_heights_on_recording_chain": (s.get("BootstrapAccepted", 0), 4000),
        "checks_recorded_set_in_force": (s.get("RecordedChecks", 0), 80000),
        "accepted_recorded_set_in_force": (s.get("RecordedAccepted", 0), 10000),
        "accepted_producers_outside_initial_set": (s.get("AcceptedNonInitial", 0), 4000),
        "tdpos_chain_walks": (s.get("TdposChainWalks", 0), 300),
        "tdpos_accepted_in_tip_term": (s.get("TdposTipTermAccepted", 0), 2000),
        "tdpos_accepted_in_new_term": (s.get("TdposNewTermAccepted", 0), 4000),
        "single_accepted": (s.get("SingleAccepted", 0), 1),
        "pow_chains": (p.get("Chains", 0), 1000),
        "pow_retargets": (p.get("Retargets", 0), 1000),
        "pow_target_changes": (p.get("TargetChanges", 0), 500),
        "pow_candidates_accepted": (p.get("CandAccepted", 0), 1000),
        "pow_candidates_rejected": (p.get("CandRejected", 0), 1000),
        # candidates whose parent is not the tip (competitors of the tip, children of stored competitors and of a stored
        # side branch), measured on the real blocks submitted
        "pow_fork_candidates": (p.get("ForkCandChecks", 0), 20000),
        "pow_fork_candidates_accepted": (p.get("ForkCandAccepted", 0), 3000),
        "pow_fork_candidates_rejected": (p.get("ForkCandRejected", 0), 10000),
        "pow_fork_accepted_stamped_before_the_tip": (p.get("ForkAcceptedBeforeTip", 0), 1000),
        "pow_fork_rejected_stamped_at_or_after_the_tip": (p.get("ForkRejectedNotBeforeTip", 0), 3000),
        "pow_fork_accepted_competitors_of_the_tip": (p.get("ForkAcceptedCompetitor", 0), 1000),
        "pow_fork_accepted_children_of_stored_competitors": (p.get("ForkAcceptedSibling", 0), 1000),
        "pow_fork_accepted_children_of_side_branch": (p.get("ForkAcceptedSideBranch", 0), 500),
        "pow_side_branches_stored": (p.get("SideBranchesStored", 0), 1000),
        "pow_candidates_with_unknown_parent": (p.get("OrphanCandChecks", 0), 3000),
        "pow_fork_declared_target_differs_from_tip_child": (p.get("ForkTargetDiffersFromTipChild", 0), 1000),
        "compact_cases": (p.get("CompactCases", 0), 4000),
    })
