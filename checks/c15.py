"""C15 - the pending-proposal tree stays a tree; certified and committed markers only advance.

(1) TLC model-checks spec/QCTree.tla (IDEAL): every tree shape of NP proposals, every arrival order
    (children before parents, duplicates, competing children) interleaved with Certify / Enforce / Commit,
    against the C15 invariants and action properties.  A second, smaller run includes the pacemaker.
    The run dumps its state space: for every reachable state the history that reaches it becomes a behaviour.
(2) TLC simulates the same spec for up to 12 proposals (Gen_QCTree).
(3) The Go harness (harness/cmd/c15) replays the behaviours on the real QCPendingTree (package-private
    mutators through the verif export shim) and the real DefaultPaceMaker and records after every step the
    parent links reachable from Root, the live orphan forest, multiplicities and the five markers.
(4) TLC validates the recorded trace against the same mutators (Trace_QCTree): first IDEAL, then - if
    rejected - ACTUAL with exactly the deviations listed as known.
(5) The same for the Smr level (spec/QCSmr.tla, driver `c15 smr`): proposals and votes arrive as real signed
    p2p messages at the real Smr handlers.
(6) Multi-replica phase (checks/bftnet_common.py, spec/BftNet.tla, driver harness/cmd/bftnet): a network of 4 real Smr
    instances executes TLC-generated schedules of block production, message deliveries in any order (repeated, never),
    confirmations, rollbacks and byzantine injections; every replica's projection and every sent message is validated
    after every step; TLC model-checks commit safety, vote uniqueness, quorums and the locking rule on the network design.
"""
import concurrent.futures
import json
import os
import shutil
import sys

import vp

sys.path.insert(0, os.path.dirname(os.path.abspath(__file__)))
from _tlcdump import tla_value, read_dump, known as known_findings, mc_dump   # noqa: E402
import bftnet_common                                                            # noqa: E402

KF_ALL = ["KF_OrphanFirstMatchOnly", "KF_StaleMarkers"]
STATS = {}


def behaviours_from_dump(path, limit=None):
    """For every reachable state the history that reaches it first (BFS: a shortest one)."""
    out = []
    for st in read_dump(path):
        h = tla_value(st["hist"])
        if len(h) > 1:
            out.append(h)
    out.sort(key=lambda h: json.dumps(h, sort_keys=True))
    return out


def replay_validate(run, behs, kf, name, driver, module, cfg, batch, par):
    """Replay behaviours on the real code in batches, validate every batch with TLC (batches concurrently,
    one JVM each): IDEAL first, then ACTUAL with the known deviations."""
    kf_consts = {k: "TRUE" for k in kf if k in KF_ALL}

    def validate(b0, trace):
        res = run.tlc_validate(module, cfg, trace, name="%s_val_%d" % (name, b0))
        used = []
        if res["hw"] != res["len"] + 1 and kf_consts:
            res = run.tlc_validate(module, cfg, trace, name="%s_valkf_%d" % (name, b0), consts=kf_consts)
            used = res.get("dev") or []
        return b0, trace, res, used

    events = 0
    futs = []
    with concurrent.futures.ThreadPoolExecutor(max_workers=par) as ex:
        for b0 in range(0, len(behs), batch):
            if any(f.done() and f.exception() is None and f.result()[2]["hw"] != f.result()[2]["len"] + 1 for f in futs):
                break       # an unexplained event was found: report it, do not spend time on the rest
            part = behs[b0:b0 + batch]
            d = run.sub("%s_in_%d" % (name, b0))
            for i, b in enumerate(part):
                with open(os.path.join(d, "b_%d.json" % i), "w") as f:
                    json.dump(b, f)
            trace = os.path.join(run.work, "%s_%d.ndjson" % (name, b0))
            out = run.harness([driver, "-in", d, "-out", trace])
            shutil.rmtree(d, ignore_errors=True)
            try:
                for k, v in json.loads(out.strip().splitlines()[-1]).items():
                    STATS[name + "." + k] = STATS.get(name + "." + k, 0) + v
            except Exception:
                raise vp.Undecided("harness printed no statistics")
            futs.append(ex.submit(validate, b0, trace))
        results = sorted((f.result() for f in futs), key=lambda r: r[0])
    for b0, trace, res, used in results:
        events += res["len"]
        if res["hw"] == res["len"] + 1:
            for k in used:
                run.known("key=%s :: %s" % (k, kf.get(k, k)))
            run.cov["traces_validated_against_impl"] = run.cov.get("traces_validated_against_impl", 0) + len(behs[b0:b0 + batch])
        elif not run.violations:
            div = res["div"]
            evs = vp.read_ndjson(trace)
            at = div.get("at", 0)
            ev = evs[at - 1] if 0 < at <= len(evs) else {}
            prog = [e for e in evs if e.get("tr") == ev.get("tr") and e.get("i", 0) <= ev.get("i", 0)]
            exp, act = div.get("exp") or {}, div.get("act") or {}
            diff = ["%s: specification %s, real code %s" % (k, json.dumps(exp.get(k)), json.dumps(act.get(k)))
                    for k in sorted(set(exp) | set(act)) if exp.get(k) != act.get(k)]
            what = "%s trace %s, step %s (%s %s): result %s (specification: %s); %s" % (
                name, ev.get("tr"), ev.get("i"), ev.get("op"), ev.get("p"), div.get("actres"), div.get("expres"), "; ".join(diff[:6]))
            run.violation(what, {"property": "C15", "seed": run.seed, "driver": driver, "trace_module": module, "trace_cfg": cfg,
                                 "program": [{k: v for k, v in e.items() if k not in ("obs", "tr", "i")} for e in prog],
                                 "first_unexplained_event": ev.get("i"), "expected": exp, "actual": act,
                                 "expected_result": div.get("expres"), "actual_result": div.get("actres"),
                                 "known_enabled": sorted(kf_consts)})
        if os.path.exists(trace):
            os.remove(trace)
    run.cov["trace_events"] = run.cov.get("trace_events", 0) + events
    return events


def count_ops(behs, pred):
    return sum(1 for b in behs for o in b if pred(o))


def check(run):
    quick = run.tier == "quick"
    kf = known_findings("C15")
    run.build_harness("c15")
    par = 6 if quick else 10

    if run.replay:
        rp = json.load(open(run.replay))
        if rp.get("phase") == "bftnet":
            bftnet_common.bftnet_replay(run, rp)
            run.finish(require={})
        replay_validate(run, [rp["program"]], kf, "rp", rp.get("driver", "replay"), rp.get("trace_module", "Trace_QCTree.tla"),
                        rp.get("trace_cfg", "Trace_QCTree.cfg"), 1, 1)
        run.finish(require={})

    # (6) the multi-replica phase runs beside the others (own binary, own TLC directories)
    bft_pool = concurrent.futures.ThreadPoolExecutor(max_workers=1)
    bft_job = bft_pool.submit(bftnet_common.bftnet_phase, run, quick, bftnet_common.build(run))

    pool = concurrent.futures.ThreadPoolExecutor(max_workers=6)
    # (2) generation by simulation, beside the model check
    tree_plans = [(150, 6, 30), (120, 9, 45), (80, 12, 60)] if quick else [(1500, 6, 30), (1500, 9, 45), (1500, 12, 60), (600, 12, 90)]
    genjobs = [pool.submit(run.tlc_gen, "Gen_QCTree.tla", "Gen_QCTree.cfg", num, ops * 2, name="gen%d" % k, seed=run.seed + k,
                           consts={"NP": np_, "MaxOps": ops}) for k, (num, np_, ops) in enumerate(tree_plans)]
    smr_plans = [(120, 7, 30), (80, 10, 45)] if quick else [(1200, 7, 30), (1200, 10, 45), (600, 12, 70)]
    smrjobs = [pool.submit(run.tlc_gen, "Gen_QCSmr.tla", "Gen_QCSmr.cfg", num, ops * 2, name="sgen%d" % k, seed=run.seed + 100 + k,
                           consts={"NP": np_, "MaxOps": ops}) for k, (num, np_, ops) in enumerate(smr_plans)]
    # (1) exhaustive model checks of the IDEAL design
    if quick:
        run.tlc_mc("QCTree.tla", "MC_QCTree.cfg", workers=12, timeout=900)
        res, dump, _ = mc_dump(run, "QCTree.tla", "MC_QCTree_pace.cfg", workers=8, timeout=600)
    else:
        run.tlc_mc("QCTree.tla", "MC_QCTree_thorough.cfg", workers=14, timeout=1500)
        run.tlc_mc("QCTree.tla", "MC_QCTree_pace.cfg", workers=8, timeout=600)
        res, dump, _ = mc_dump(run, "QCTree.tla", "MC_QCTree.cfg", workers=12, timeout=900)
    # Smr level: the chain and one fork of 5 proposals, breadth-first to 5 (quick) / 7 (thorough) handler calls
    run.tlc_mc("QCSmr.tla", "MC_QCSmr.cfg" if quick else "MC_QCSmr_thorough.cfg", workers=8 if quick else 14, timeout=900)
    for mc in run.cov["model_checks"]:
        if mc["module"] == "QCSmr.tla":
            mc["bounded_by_level"] = 5 if quick else 7
    cover = behaviours_from_dump(dump)
    os.remove(dump)
    gen = []
    for j in genjobs:
        gen += j.result()
    sgen = []
    for j in smrjobs:
        sgen += j.result()
    pool.shutdown()

    # (3) + (4): tree level
    behs = cover + gen
    events = replay_validate(run, behs, kf, "tree", "replay", "Trace_QCTree.tla", "Trace_QCTree.cfg",
                             batch=4000 if quick else 6000, par=par)
    # (5): Smr level with real signed messages
    sevents = 0
    if not run.violations:
        sevents = replay_validate(run, sgen, kf, "smr", "smr", "Trace_QCSmr.tla", "Trace_QCSmr.cfg", batch=150 if quick else 400, par=par)

    bft = bft_job.result()
    bft_pool.shutdown()
    run.samples = [cover[len(cover) // 2], gen[0][:12], sgen[0][:12]] + (run.samples or [])
    run.cov["real_code"] = dict(STATS)
    run.cov["cases"] = {"state_cover_behaviours": len(cover), "state_cover_source": res["cfg"], "tlc_generated_tree_behaviours": len(gen),
                        "tlc_generated_smr_behaviours": len(sgen), "max_proposals_exhaustive": 5 if quick else 6, "max_proposals_simulated": 12}
    run.assumptions += [
        "a proposal's view is its height (parent's view + 1), as tdpos / xpoa produce them (BlockToProposalNode, ProcessProposal(height))",
        "handlers run one at a time (the Smr has no lock; interleavings inside a handler are not the subject)",
        "orphan trees whose root is not above the root's view are not observed: the code drops them lazily and never consults them",
        "generic / locked / commit are compared once assigned by a certification or rollback; the initialisation values "
        "(CommitQC = genesis) are not the property's subject",
        "Smr level: 4 validators, the node under test is member 1; every justify carries valid signatures of members 2..4"]
    req = bftnet_common.thresholds(bft, quick)
    req.update({
        "tree_events": (events, 3000),
        "root_moves_on_real_tree": (STATS.get("tree.root_moves", 0), 30),
        "orphan_adoptions_on_real_tree": (STATS.get("tree.adoptions", 0), 100),
        "steps_with_live_orphans": (STATS.get("tree.steps_with_orphans", 0), 1000),
        "high_moves_on_real_tree": (STATS.get("tree.high_moves", 0), 200),
        "rollbacks": (count_ops(behs, lambda o: o["op"] == "enforce" and o.get("res") == "ok"), 50),
        "duplicate_submissions": (sum(1 for b in behs for i, o in enumerate(b) if o["op"] == "insert" and
                                      any(x["op"] == "insert" and x["p"] == o["p"] for x in b[:i])), 100),
        "smr_events": (sevents, 1000),
        "smr_proposals_inserted": (STATS.get("smr.inserted", 0), 200),
        "smr_quorums": (STATS.get("smr.quorums", 0), 50),
        "smr_root_moves": (STATS.get("smr.root_moves", 0), 5),
    })
    run.finish(require=req)
