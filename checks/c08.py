"""C08 - block integrity: id, merkle root and proposer signature bind header and body.

(1) TLC model-checks spec/BlockId.tla (IDEAL) exhaustively: every base block (0..6 transactions, with /
    without quorum certificate, failed-tx map, PoW bits) x every single mutation x every repair strategy
    against: Verify(Format(..)); Verify(b) => id = H(header fields) /\\ root = MerkleRoot(exactly the
    ordered tx list) /\\ signer's key hashes to the proposer; every single mutation that changes bound
    content is rejected unless newly signed by the stated proposer's key.
(1b) For every known deviation TLC is run on ACTUAL(KF) and must find the structural counterexample
    (evidence only; a KNOWN-FINDING line needs real-code evidence, which comes from (4)).
(2) TLC enumerates the same cases as JSON (Gen_BlockId.tla); (3) harness/cmd/c08 concretises every case:
    real Ledger.FormatMinerBlock, the mutation on the real protobuf, Ledger.VerifyBlock, single / pow
    CheckMinerMatch and the public primitives (MakeBlockID, MakeMerkleTree, address / signature checks);
    a reflection walk over the InternalBlock schema must match the specification's field table (exit 2
    otherwise).  (4) TLC validates the recorded ndjson against the same actions (Trace_BlockId.tla):
    explained by IDEAL -> held; explained only with a deviation listed as known -> KNOWN-FINDING;
    else VIOLATION."""
import json, os, random, re, shutil
from concurrent.futures import ThreadPoolExecutor
import vp

KF_ALL = ["KF_MerkleDupLastTx", "KF_MerkleTreeUnchecked", "KF_EmptyBlockRejected", "KF_HeaderConcat"]
KINDS = ["set", "seti", "junk", "id", "sig", "fadd", "fdrop", "fmsg", "fswap", "fshift", "jadd", "jdrop", "jset", "jshift",
         "jsadd", "jsdrop", "jsset", "jsshift", "tadd", "tdrop", "tswap", "talt", "tdup", "mset", "mcopy", "mdrop", "mclear", "madd"]
OWN_KNOWN = os.path.join(vp.VERIF, "findings", "C08.known")


def known_deviations():
    """known: lines of /verif/KNOWN_FINDINGS.txt and of findings/C08.known (the proposal file of this check);
    a fixed: entry of KNOWN_FINDINGS.txt wins over a proposal."""
    kf = vp.known_findings("C08")
    fixed = {k["key"] for k in kf if k["status"] == "fixed"}
    out = {k["key"]: k["desc"] for k in kf if k["status"] == "known"}
    if os.path.exists(OWN_KNOWN):
        for line in open(OWN_KNOWN):
            m = re.match(r"\s*known:\s+property=C08\s+(.*?)\s*::\s*(.*)$", line.strip())
            if m:
                km = re.search(r"key=(\S+)", m.group(1))
                if km and km.group(1) not in fixed:
                    out.setdefault(km.group(1), m.group(2))
    return {k: v for k, v in out.items() if k in KF_ALL}


def actual_mc(run, kf, timeout=600):
    """TLC on ACTUAL(kf): the deviation must break a property invariant (the structural counterexample)."""
    d = run._tlc_dir("mcx_" + kf, [])
    cfg = open(os.path.join(vp.SPEC, "MC_BlockId.cfg")).read()
    cfg = re.sub(r"(?m)^(\s*%s\s*=\s*).*$" % kf, r"\g<1>TRUE", cfg)
    cfg = re.sub(r"(?m)^(\s*MaxTx\s*=\s*).*$", r"\g<1>3", cfg).replace(" MerkleLemma", "")
    with open(os.path.join(d, "A.cfg"), "w") as f:
        f.write(cfg)
    rc, out, dt = run._tlc(d, ["-workers", "2", "-config", "A.cfg", "-dumpTrace", "json", "ce.json", "BlockId.tla"], timeout)
    m = re.search(r"Error: Invariant (\w+) is violated", out)
    ce = os.path.join(d, "ce.json")
    if not m or not os.path.exists(ce):
        vp.log(out[-3000:])
        raise vp.Undecided("TLC did not find a counterexample on ACTUAL(%s): the deviation breaks no invariant" % kf)
    last = json.load(open(ce))["counterexample"]["state"][-1][1]
    res = {"deviation": kf, "invariant_violated": m.group(1), "base_txs": last["orig"]["txs"], "mutation": last["mut"]["m"],
           "strategy": last["mut"]["st"], "mutated_txs": last["blk"]["txs"], "header_tx_count": last["blk"]["txcount"],
           "verdicts": last["verdict"], "wall_s": round(dt, 1)}
    shutil.rmtree(d, ignore_errors=True)
    return res


def chunks(behs, size, rnd, limit):
    """behs[0] is the schema behaviour; every other behaviour is <<format(p), mut*>>.  Split into behaviours of
    at most `size` cases, each starting with its format op; keep at most `limit` cases (seeded sample of chunks)."""
    out = []
    for b in behs[1:]:
        ops = b[1:]
        if not ops:
            out.append([b[0]])
        for i in range(0, len(ops), size):
            out.append([b[0]] + ops[i:i + size])
    total = sum(len(c) - 1 for c in out)
    if limit and total > limit:
        # seeded sample of chunks; every base block stays represented by at least one chunk
        rnd.shuffle(out)
        kept, n, seen = [], 0, set()
        for c in out:
            key = json.dumps(c[0], sort_keys=True)
            if key not in seen or n < limit:
                kept.append(c)
                n += len(c) - 1
                seen.add(key)
        out = kept
    return out, total


def add_stats(acc, st):
    for k, v in st.items():
        if isinstance(v, dict):
            d = acc.setdefault(k, {})
            for kk, vv in v.items():
                d[kk] = d.get(kk, 0) + vv
        elif k == "schema_fields":
            acc[k] = v
        else:
            acc[k] = acc.get(k, 0) + v


def replay_validate(run, schema, behs, kf_consts, kf_desc, name, stats):
    """One batch: driver -> ndjson -> TLC.  Single pass with the known deviations enabled: a line IDEAL explains
    uses no deviation (Trace_BlockId.tla tries IDEAL first on every line), so the outcome equals validating
    against IDEAL first and against ACTUAL(known) only on rejection."""
    d = run.sub(name + "_in")
    for f in os.listdir(d):
        os.remove(os.path.join(d, f))
    for i, b in enumerate([schema] + behs):
        with open(os.path.join(d, "b_%d.json" % i), "w") as f:
            json.dump(b, f)
    trace = os.path.join(run.work, name + ".ndjson")
    out = run.harness(["replay", "-in", d, "-out", trace])
    try:
        add_stats(stats, json.loads(out.strip().splitlines()[-1]))
    except Exception:
        raise vp.Undecided("driver printed no statistics")
    res = run.tlc_validate("Trace_BlockId.tla", "Trace_BlockId.cfg", trace, name=name + "_val", consts=kf_consts)
    run.cov["trace_events"] = run.cov.get("trace_events", 0) + res["len"]
    if res["hw"] == res["len"] + 1:
        for k in res.get("dev", []) or []:
            run.known(kf_desc.get(k, k))
        run.cov["traces_validated_against_impl"] = run.cov.get("traces_validated_against_impl", 0) + len(behs)
        os.remove(trace)
        return True
    div = res["div"]
    events = vp.read_ndjson(trace)
    at = div.get("at", 0)
    ev = events[at - 1] if 0 < at <= len(events) else {}
    tr = ev.get("tr")
    prog = [e for e in events if e.get("tr") == tr and e.get("op") in ("format", "mut")]
    case = [e for e in prog if e.get("op") == "format" or e.get("i") == ev.get("i")]
    exp, act = div.get("exp"), div.get("act")
    what = "behaviour %s op %s (%s %s): %s expected %s, real code %s" % (
        tr, ev.get("i"), div.get("op"), json.dumps({k: v for k, v in (case[-1] if case else {}).items() if k in ("p", "m", "st")}, sort_keys=True),
        "verdicts [v=Ledger.VerifyBlock s=single.CheckMinerMatch w=pow.CheckMinerMatch]" if div.get("op") == "verify" else "public primitives",
        json.dumps(exp, sort_keys=True), json.dumps(act, sort_keys=True))
    run.violation(what, {"property": "C08", "driver": "c08 replay", "seed": run.seed, "tier": run.tier, "schema": schema, "known_deviations_enabled": sorted(kf_consts),
                         "program": [{k: v for k, v in e.items() if k in ("op", "p", "m", "st")} for e in case],
                         "first_unexplained_event": ev, "expected": exp, "actual": act})
    os.remove(trace)
    return False


def check(run):
    quick = run.tier == "quick"
    rnd = random.Random(run.seed)
    known = known_deviations()
    kf_consts = {k: "TRUE" for k in known}
    run.build_harness("c08")

    # (1b) every known deviation is a real deviation of the model: TLC finds the structural counterexample
    #      (small JVMs, run beside the main model check)
    pool = ThreadPoolExecutor(max_workers=4)
    futs = [pool.submit(actual_mc, run, kf) for kf in KF_ALL if kf in known]
    # (1) the design: IDEAL holds all property invariants
    run.tlc_mc("BlockId.tla", "MC_BlockId.cfg" if quick else "MC_BlockId_thorough.cfg", timeout=780)
    run.cov["tlc_counterexamples_on_actual"] = [f.result() for f in futs]
    pool.shutdown()
    # minimal reproductions on the real code (plain facts; evidence)
    try:
        run.cov["real_code_reproductions"] = json.loads(run.harness(["repro"]))
    except ValueError:
        raise vp.Undecided("repro driver printed no JSON")

    # (2) TLC enumerates the cases
    if run.replay:
        rp = json.load(open(run.replay))
        schema = rp["schema"]
        run.seed = rp.get("seed", run.seed)       # the concretisation of the recorded run
        cases, total = [[{k: v for k, v in e.items() if k in ("op", "p", "m", "st")} for e in rp["program"]]], 0
    else:
        consts = {} if quick else {"RepTx": 3, "Full": "TRUE", "Rich": "TRUE"}
        behs = run.tlc_gen("Gen_BlockId.tla", "Gen_BlockId.cfg", 1, 3, consts=consts)
        if not behs or behs[0][0].get("op") != "schema":
            raise vp.Undecided("generation did not produce the schema behaviour")
        schema = behs[0]
        cases, total = chunks(behs, 400, rnd, None)   # every enumerated case is concretised (a limit would sample chunks)
    run.cov["cases_enumerated"] = total

    # (3) + (4) concretise on the real code, validate with TLC
    stats = {}
    per_batch = 150  # behaviours of <= 400 cases
    for k in range(0, len(cases), per_batch):
        if not replay_validate(run, schema, cases[k:k + per_batch], kf_consts, known, "t%d" % (k // per_batch), stats):
            break
    run.cov["driver"] = stats
    run.samples = [c[:3] for c in cases[:2]]
    run.assumptions += [
        "hashes are collision free and signatures unforgeable (DESIGN section 8): the specification's hash is an injective term constructor",
        "transactions are bound by txid (the content of a transaction under its txid is C07's subject)",
        "fields outside id and signature (height, in_trunk, next_hash, failed-tx keys, non-positive target bits) may be altered without "
        "the property demanding a verdict (R2); pow / single CheckMinerMatch are bound for the id / address / signature checks they repeat",
        "a verifier that panics is recorded as a rejection (%d panics in this run: a public key whose point is not on the curve)" % stats.get("panics", 0),
    ]
    if run.replay or run.violations:
        run.finish()        # exit 1 on a violation: vacuity thresholds are not consulted then
    touched = stats.get("touched", {})
    untouched = [f["name"] for f in schema[0]["fields"] if not touched.get(f["name"])]
    if untouched:
        raise vp.Undecided("fields of the specification's table no enumerated mutation touched on the real protobuf: %s" % untouched)
    by = stats.get("by_kind", {})
    m = 1 if quick else 12
    req = {"blocks_formatted": (stats.get("formatted", 0), 14), "accepted_unmutated": (stats.get("base_accepted", 0), 12),
           "mutations": (stats.get("cases", 0), 8000 * m), "rejected": (stats.get("rejected", 0), 4000 * m),
           "accepted_mutated_or_reformatted": (stats.get("accepted", 0), 1000 * m),
           "single_accepted": (stats.get("single_ok", 0), 500 * m), "pow_accepted": (stats.get("pow_ok", 0), 200 * m),
           "schema_fields_touched": (len([1 for f in schema[0]["fields"] if touched.get(f["name"])]), len(schema[0]["fields"]))}
    for kd in KINDS:
        req["mut_" + kd] = (by.get(kd, 0), 8)
    run.finish(require=req)
