"""C04 - ledger main-chain integrity under forks, reorganisations and truncation.

(1) TLC model-checks spec/Ledger.tla exhaustively (all trees, confirmation orders, duplicates, invalid
    submissions, truncations within the constants) against the C04 invariants.
(2) TLC simulates the same spec and dumps behaviours; (3) the Go harness replays them on the real
    ledger and records every query the property names after every step; (4) TLC validates the
    recorded trace against the same actions (Trace_Ledger.tla)."""
import json, os
import vp
import tracecheck


def check(run):
    if getattr(run, "replay", None):
        import xstate_common as xc
        return xc.maybe_replay(run)
    quick = run.tier == "quick"
    run.build_harness()
    run.tlc_mc("Ledger.tla", "MC_Ledger.cfg" if quick else "MC_Ledger_thorough.cfg", timeout=3000)
    behs = []
    plans = [(150, 14, 8, 3, 2)] if quick else [(1500, 14, 8, 3, 2), (1000, 22, 11, 3, 2), (500, 30, 14, 3, 1)]
    for k, (num, ops, maxb, ntx, mtx) in enumerate(plans):
        behs += run.tlc_gen("Gen_Ledger.tla", "Gen_Ledger.cfg", num, ops + 2, name="gen%d" % k, seed=run.seed + k,
                            consts={"MaxBlocks": maxb, "NTx": ntx, "MaxTxPerBlock": mtx, "MaxOps": ops})
    tracecheck.replay_and_validate(run, behs, driver="ledger-replay", driver_args=["-ntx", "3"],
                                   trace_module="Trace_Ledger.tla", trace_cfg="Trace_Ledger.cfg")
    ops = [o for b in behs for o in b]
    cnt = lambda f: sum(1 for o in ops if f(o))
    run.samples = behs[:2]
    run.assumptions += ["the ledger is driven through its exported API on the in-memory kv engine (checked "
                        "differentially against the leveldb wrapper in setup)",
                        "a transaction is repeated on a path only in a block that joins the main chain and repeats a transaction "
                        "of a main-chain block (the ledger must refuse it); other repetitions are left to the state machine (generator precondition)"]
    run.finish(require={
        "switches": (cnt(lambda o: o.get("res") == "ok_switch"), 5),
        "side_blocks": (cnt(lambda o: o.get("res") == "ok_side"), 5),
        "truncations": (cnt(lambda o: o["op"] == "truncate"), 3),
        "restarts": (cnt(lambda o: o["op"] == "restart"), 5),
        "refused": (cnt(lambda o: o.get("res") == "fail"), 5),
        "refused_repeated_transaction": (cnt(lambda o: o["op"] == "confirm" and o.get("res") == "fail"), 5),
    })
