"""C09 - contract effects: what was pre-executed is what is verified and committed.

(1) TLC model-checks spec/Contract.tla (IDEAL): every prior state of three keys (live / deleted / never written) x
    every program of the harness's kernel contract up to the configured length (get / put / del / range scan /
    nested call / transfer out of the contract / event / resource use / failing, with Go error or with status 500)
    x amount sent along x another client's interleaved write x every single tampering of the assembled transaction
    (the declared write set is a LIST: records dropped / added / altered / replaced by a copy of another record /
    appended for a written key / repeated / swapped / re-labelled to another contract's bucket; read records altered /
    dropped / added / repeated with a current or a stale version; contract outputs redirected / dropped / reduced /
    frozen; contract inputs omitted / extra / spent undeclared; ...), against: the honest transaction is admitted on the same state (HonestAccepted), a commit changes exactly the keys
    / balances of the write set (CommitExact), every tampering that claims something the execution does not produce
    or pays less is refused (TamperRejected), a stale declared read is refused (StaleRejected), whatever is admitted
    re-executes over its own declared reads to its own declared effects and pays for it (AdmittedSound), a refused
    transaction changes nothing (RejectedChangesNothing).
(2) TLC simulates the same spec and dumps cases; (3) harness/cmd/c09 runs every case on a real node: real setup
    transactions, the engine's own Chain.PreExec, the transaction assembled from the response as a client does,
    tampered, signed, State.VerifyTx + State.DoTx, projection of keys (value + version) and balances after every
    step - the keys by four readers: the executing node (warm version cache), a second node that has nothing but the
    stored data (plus, for every third case, a node reopened on a copy of the data), a range read on each, and the
    write record each stored version (transaction id, offset) refers to; odd cases use a bucket that sorts after the
    transient bucket, so that event / contract-utxo records precede the contract's writes in the write set;
    (4) TLC validates the recording against Trace_Contract.tla (the Go side never judges).
Known deviations (DESIGN section 4) are spec constants KF_*; only those listed as `known:` in
/verif/KNOWN_FINDINGS.txt or (proposed, until the main session decides) /verif/findings/C09.known are enabled."""
import json, os, re
from concurrent.futures import ThreadPoolExecutor
import vp
import tracecheck

KFS = ["KF_ContractUtxoUnbound", "KF_FailedStatusAccepted", "KF_NestedUseUncounted"]
PROPOSED = os.path.join(vp.VERIF, "findings", "C09.known")
MUST_REJECT = ["read_ver", "write_drop", "write_add", "write_val", "write_dup", "write_app", "write_bucket", "cin_steal", "limit_below", "fee_below", "amt_req",
               "amt_out", "ev_alter", "ev_drop", "ctr_alter", "redirect", "cout_drop", "cout_less", "cout_freeze", "cin_omit", "cin_extra"]


def known():
    """key -> description of the deviations that may be enabled (status known)."""
    out = dict(vp.known_keys("C09"))
    fixed = {k["key"] for k in vp.known_findings("C09") if k["status"] == "fixed"}
    if os.path.exists(PROPOSED) and not os.environ.get("VERIF_NO_PROPOSED_KNOWN"):
        for line in open(PROPOSED):
            m = re.match(r"known:\s+property=C09\s+(.*?)\s*::\s*(.*)$", line.strip())
            if not m:
                continue
            km = re.search(r"key=(\S+)", m.group(1))
            if km and km.group(1) not in fixed:
                out.setdefault(km.group(1), m.group(2))
    out = {k: v for k, v in out.items() if k in KFS}
    # self-test aid (mutants / proposed fixes in a VERIF_REPO worktree): restrict the enabled deviations,
    # e.g. VERIF_C09_KF=none or VERIF_C09_KF=KF_NestedUseUncounted
    sel = os.environ.get("VERIF_C09_KF")
    if sel is not None:
        names = [] if sel == "none" else sel.split(",")
        out = {k: v for k, v in out.items() if k in names}
    return out


def strip(ev):
    return {k: v for k, v in ev.items() if k not in ("obs", "tr", "i", "err", "stage", "dv")}


def subsets(keys):
    keys = sorted(keys)
    out = []
    for m in range(2 ** len(keys) - 1, -1, -1):
        out.append([k for i, k in enumerate(keys) if m >> i & 1])
    return sorted(out, key=lambda s: -len(s))


def replay_validate(run, behs, kf, name, base=0, batch=1000, consts=None):
    """Replays cases on the real node in batches and lets TLC validate each recording.  Returns the driver's counters.
    The recording is validated against ACTUAL = IDEAL + the known deviations; if that fails, against IDEAL + every other
    subset of the KNOWN deviations (DESIGN section 4: a known deviation is allowed, not required - a repaired defect whose
    entry has not been turned into `fixed:` yet must not raise an alarm).  The tree under test is one code base, so one
    subset has to explain a whole batch; the subset that worked is tried first for the next batch."""
    base_consts = dict(consts or {})       # constants the cases were generated with (NU)
    if not hasattr(run, "c09_active"):
        run.c09_active = sorted(kf)
    totals = {}
    for start in range(0, len(behs), batch):
        chunk = behs[start:start + batch]
        d = tracecheck.dump_behaviours(run, chunk, name + "_in")
        trace = os.path.join(run.work, "%s_%d.ndjson" % (name, start))
        out = run.harness(["replay", "-in", d, "-out", trace, "-base", str(base + start)])
        try:
            stats = json.loads(out.strip().splitlines()[-1])
        except Exception:
            raise vp.Undecided("the driver printed no counters")
        first = None
        for active in [run.c09_active] + [s for s in subsets(kf) if s != run.c09_active]:
            kf_consts = dict(base_consts)
            kf_consts.update({k: "TRUE" for k in active})
            res = run.tlc_validate("Trace_Contract.tla", "Trace_Contract.cfg", trace, name=name + "_val", consts=kf_consts)
            if first is None:
                first = (res, kf_consts)
            if res["hw"] == res["len"] + 1:
                run.c09_active = active
                break
        else:
            res, kf_consts = first
        run.cov["trace_events"] = run.cov.get("trace_events", 0) + res["len"]
        # informative (never a verdict): refusals issued by DoTx where the specification's structure says VerifyTx, or vice versa
        run.cov["refusals_by_other_call"] = run.cov.get("refusals_by_other_call", 0) + int(res.get("stagediff") or 0)
        if res["hw"] == res["len"] + 1:
            for k, v in stats.items():
                totals[k] = totals.get(k, 0) + v
            run.cov["traces_validated_against_impl"] = run.cov.get("traces_validated_against_impl", 0) + len(chunk)
            run.cov["real_ops"] = run.cov.get("real_ops", 0) + stats.get("ops", 0)
            for k in res.get("dev", []) or []:
                run.known(kf.get(k, k))
            os.remove(trace)
            continue
        events = vp.read_ndjson(trace)
        div = res["div"]
        at = div.get("at", 0) or res["hw"]          # no divergence record: no action of the spec is enabled for line hw
        ev = events[at - 1] if 0 < at <= len(events) else {}
        tr = ev.get("tr")
        prog = [strip(e) for e in events if e.get("tr") == tr and e.get("op") != "reset"]
        if div.get("at", 0):
            what = "case %s step %s (%s%s): expected result %s, actual %s; %s" % (
                tr, ev.get("i"), ev.get("op"), " tampering " + ev["tk"] if ev.get("op") == "submit" else "",
                div.get("expres"), div.get("actres"), "; ".join(tracecheck.diff_obs(div.get("exp"), div.get("act"))[:6]))
        else:
            what = "case %s step %s (%s): no action of the specification is enabled for this line" % (tr, ev.get("i"), ev.get("op"))
        run.violation(what, {"property": run.pid, "driver": "replay", "trace_module": "Trace_Contract.tla",
                             "trace_cfg": "Trace_Contract.cfg", "consts": kf_consts, "case": tr, "program": prog,
                             "first_unexplained_event": ev.get("i"), "stage": ev.get("stage"), "err": ev.get("err"),
                             "expected": div.get("exp"), "actual": div.get("act"),
                             "expected_result": div.get("expres"), "actual_result": div.get("actres")})
        os.remove(trace)
        break
    return totals


def binding_selftest(run, behs, kf, consts):
    """Anti-vacuity (DESIGN section 6): a recording with one corrupted field, or one line removed, must be rejected."""
    kf_consts = dict(consts or {})
    kf_consts.update({k: "TRUE" for k in kf})
    d = tracecheck.dump_behaviours(run, behs, "st_in")
    trace = os.path.join(run.work, "st.ndjson")
    run.harness(["replay", "-in", d, "-out", trace])
    ev = vp.read_ndjson(trace)
    adm = next((i for i, e in enumerate(ev) if e.get("op") == "submit" and e.get("res") == "admit"), None)
    pre = next((i for i, e in enumerate(ev) if e.get("op") == "preexec" and e.get("res") == "ok"), None)
    if adm is None or pre is None:
        raise vp.Undecided("binding self-test: no admitted submission among the first cases")
    flip = [dict(e) for e in ev]
    flip[adm]["res"] = "reject"
    bal = json.loads(json.dumps(ev))
    bal[adm]["obs"]["bal"]["a"] += 1
    key = json.loads(json.dumps(ev))
    key[pre]["obs"]["resp"]["gas"] += 1
    cut = ev[:pre] + ev[pre + 1:]
    cold = json.loads(json.dumps(ev))
    cold[adm]["obs"]["cold"][0]["val"] += "x"
    ref = json.loads(json.dumps(ev))
    ref[adm]["obs"]["ref"][0] = -2
    scan = json.loads(json.dumps(ev))
    scan[adm]["obs"]["cscan"] = scan[adm]["obs"]["cscan"] + [0]
    for what, tr in (("result flipped", flip), ("balance altered", bal), ("response altered", key), ("line removed", cut),
                     ("cache-free read altered", cold), ("version reference altered", ref), ("cache-free range read altered", scan)):
        p = os.path.join(run.work, "st_bad.ndjson")
        vp.write_ndjson(p, tr)
        res = run.tlc_validate("Trace_Contract.tla", "Trace_Contract.cfg", p, name="st_val", consts=kf_consts)
        if res["hw"] == res["len"] + 1:
            raise vp.Undecided("binding self-test: the trace specification accepts a corrupted recording (%s)" % what)
    run.cov["binding_selftest"] = "7 corrupted recordings rejected"
    os.remove(trace)


def settle(run, fut):
    """Result of a side job.  Once a behaviour of the real code that the specification cannot explain has been recorded, the
    failure of another job (generation of further cases, the design-level model check) does not take the verdict back."""
    try:
        return fut.result()
    except vp.Undecided:
        if run.violations:
            return None
        raise


def check(run):
    quick = run.tier == "quick"
    run.build_harness("c09")
    kf = known()

    if run.replay:
        rep = json.load(open(run.replay))
        beh = [e for e in rep["program"] if e.get("op") != "reset"]
        replay_validate(run, [beh], kf, "rp", base=int(rep.get("case") or 0),
                        consts={k: v for k, v in (rep.get("consts") or {}).items() if k not in KFS})
        run.finish()

    full = {"MaxSteps": 5}
    short = {"MaxSteps": 3, "NU": 1}
    rich = {"MaxSteps": 4, "NU": 4, "XferAmts": "{1, 2, 3}", "UseAmts": "{1, 2, 3}"}
    # programs that write several keys next to events and transfers (whose records share the write set with the contract's own
    # writes), and the tamperings of the write / read LIST: a record repeated in place of another one, appended, swapped
    lists = {"MaxSteps": 5, "StepOps": '{"get", "put", "del", "xfer", "emit"}',
             "TamperKinds": '{"none", "write_dup", "write_swap", "write_app", "write_rep", "write_bucket", "read_dup", "write_drop", "write_val", "ev_drop", "ctr_alter", "cout_drop", "cout_less", "cout_freeze"}'}
    if quick:
        plans = [(2400, full), (600, short), (600, rich), (900, lists)]
        mcs = [("MC_Contract.cfg", 600, 12), ("MC_Contract_arg.cfg", 300, 3)]
    else:
        plans = [(16000, full), (6000, short), (8000, rich), (6000, lists)]
        mcs = [("MC_Contract_thorough.cfg", 1100, 12), ("MC_Contract_arg_thorough.cfg", 900, 4), ("MC_Contract_arg.cfg", 300, 2)]
    if os.environ.get("VERIF_C09_SKIP_MC"):      # self-test aid only (mutant loops): the design check does not read /repo
        run.assumptions.append("MODEL CHECK SKIPPED (VERIF_C09_SKIP_MC)")
        mcs = []

    # (1) design: exhaustive model checks and (2) case generation side by side (independent TLC processes, each
    # deterministic for its own seed; the simulation also evaluates the invariants on every generated case)
    def gen(k):
        num, consts = plans[k]
        return run.tlc_gen("Gen_Contract.tla", "Gen_Contract.cfg", num, 14, name="gen%d" % k, seed=run.seed + 7 * k,
                           consts=consts, timeout=1500)
    tot = {}
    with ThreadPoolExecutor(max_workers=len(plans) + len(mcs) + 1) as ex:
        mcf = [ex.submit(run.tlc_mc, "Contract.tla", cfg, timeout=to, workers=wk) for cfg, to, wk in mcs]
        gens = [ex.submit(gen, k) for k in range(len(plans))]
        # (3)-(4) conformance, while the model check is still running
        behsets = []
        base = 0
        for k, g in enumerate(gens):
            behs = settle(run, g) or []
            behsets.append(behs)
            if run.violations:
                continue
            vc = {kk: v for kk, v in plans[k][1].items() if kk == "NU"}
            t = replay_validate(run, behs, kf, "t%d" % k, base=base, consts=vc)
            if k == 0 and not run.violations:
                binding_selftest(run, behs[:40], run.c09_active, vc)
            base += len(behs)
            for kk, v in t.items():
                tot[kk] = tot.get(kk, 0) + v
        for f in mcf:
            settle(run, f)
    run.cov["driver_counters"] = tot
    if run.cov.get("refusals_by_other_call"):
        vp.log("NOTE property=C09: %d refusal(s) came from the other of the two calls (State.VerifyTx / State.DoTx) than the "
               "specification's structure says; the outcome is the same, so this is not a violation" % run.cov["refusals_by_other_call"])
    run.cov["known_deviations_enabled"] = sorted(kf)
    allb = [b for bs in behsets for b in bs]
    run.samples = [[strip(o) for o in b] for b in allb[:3]]
    run.cov["distinct_programs"] = len({json.dumps(e["prog"], sort_keys=True) for b in allb for e in b if e["op"] == "preexec"})
    run.assumptions += [
        "programs are those of the harness's own kernel contract (harness/cmd/c09/contract.go), registered through the public "
        "KernRegistry; wasm / native / evm contracts are not executed (no VM in the offline build)",
        "Chain.PreExec is the engine's own, on a Chain built over the fixture's ChainCtx by kernel/engines/xuperos/export_verif.go; "
        "submission is State.VerifyTx + State.DoTx (what Chain.SubmitTx does after its duplicate cache); transactions stay "
        "unconfirmed (no block is produced)",
        "the read set of the response is constrained, not pinned: it must contain every key the results depend on with its current "
        "version; scans are consumed to their end",
        "the verdict is on the outcome of VerifyTx + DoTx together (the code checks staleness in both); which of the two refuses is "
        "recorded but not compared",
        "all utxos of the contract's vault have the same amount, so that the utxo selection (map order) does not matter",
        "prior versions come from setup transactions admitted through State.DoTx without contract requests",
    ]
    req = {
        "programs": (tot.get("cases", 0), 1000 if quick else 10000),
        "accepted_untampered": (tot.get("tk_none_admit", 0), 100),
        "failing_calls": (tot.get("preexec_fail", 0), 50),
        "status500_calls": (tot.get("preexec_ok500", 0), 20),
        "nested_calls": (tot.get("step_call", 0), 100),
        "transfers": (tot.get("step_xfer", 0), 100),
        "scans": (tot.get("step_scan", 0), 100),
        "events": (tot.get("step_emit", 0), 50),
        "interleaved_writes": (tot.get("interleaves", 0), 50),
        "rejected_at_verify": (tot.get("reject_at_verify", 0), 100),
        "rejected_at_dotx": (tot.get("reject_at_dotx", 0), 5),
        # the window of Chain.SubmitTx: verified before another client's write landed, DoTx after it
        "submissions_verified_before_the_interleaved_write": (tot.get("early_verified_submissions", 0), 50),
        # every projection reads the keys a second time on a node that has only the stored data (no warm version cache)
        "cache_free_reads": (tot.get("cold_reads", 0), 10000 if quick else 100000),
        "reads_on_reopened_copy": (tot.get("reopened_reads", 0), 1000 if quick else 10000),
        # committed write sets in which an event / contract utxo record precedes a write of the contract (offsets shifted)
        "commits_with_write_after_transient": (tot.get("admit_write_after_transient", 0), 40),
        "control_write_swap": (tot.get("tk_write_swap_admit", 0) + tot.get("tk_write_swap_reject", 0), 5),
        "control_write_repeated": (tot.get("tk_write_rep_admit", 0) + tot.get("tk_write_rep_reject", 0), 5),
        "control_read_dup_same_version": (tot.get("tk_read_dup_admit", 0), 5),
    }
    for tk in MUST_REJECT:
        n = tot.get("tk_%s_reject" % tk, 0)
        if tk in ("redirect", "cin_omit", "cout_drop", "cout_less", "cout_freeze") and "KF_ContractUtxoUnbound" in kf:
            n += tot.get("tk_%s_admit" % tk, 0)      # the known deviation admits them; the case was exercised all the same
        req["tampering_%s" % tk] = (n, 5)
    for tk in ("arg", "read_drop", "req_drop", "read_dup"):
        req["tampering_%s" % tk] = (tot.get("tk_%s_reject" % tk, 0), 5)
    for tk in ("read_add", "fee_above", "limit_above"):
        req["control_%s_admitted" % tk] = (tot.get("tk_%s_admit" % tk, 0), 5)
    run.finish(require=req)
