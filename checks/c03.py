"""C03 - no double spend of outputs or key versions; admission iff inputs are current.

XState.tla: Submit admits exactly when every token input is an unspent, unfrozen output and every read key is at
the cited version; Play undoes conflicting pool members with their descendants; invariants NoDoubleSpend /
PoolValid over main chain + pool are model-checked. Behaviours biased to conflict families (two spenders of one
output, stale readers, chains, a peer block with known and unknown transactions, reorganisations that un-confirm
a spender) are replayed on the real code; accept / refuse classes and the pool are validated after every step."""
import vp
import xstate_common as xc
import tracecheck


def check(run):
    if xc.maybe_replay(run):
        return
    quick = run.tier == "quick"
    run.build_harness()
    run.tlc_mc("XState.tla", "MC_XState.cfg" if quick else "MC_XState_thorough.cfg", timeout=3000)
    if not quick:
        run.tlc_mc("XState.tla", "MC_XState_kv.cfg", timeout=3000)
    # design check of the rule by which a played block removes pending transactions (processUnconfirmTxs, transcribed):
    # it leaves exactly what can be re-applied on the new chain state (PlayRuleExact)
    run.tlc_mc("XState.tla", "MC_XState_play_quick.cfg" if quick else "MC_XState_play.cfg", timeout=3000)
    conflict = '{"t1", "t2", "t3", "t6", "t4", "t5", "w1", "w2", "w3", "w4", "w5", "w6", "c1", "p11", "x1", "x2", "p1", "p2", "p3", "p4", "p5", "p7", "p6", "p9", "p10"}'
    plans = [dict(num=120, ops=20, txs=conflict, driver_args=["-direct", "35"])] if quick else \
            [dict(num=1500, ops=20, txs=conflict, driver_args=["-direct", "35"]), dict(num=500, ops=30, maxb=9)]
    # pools of readers and writers of one key, so that a played block often supersedes a version a pending transaction read
    plans.append(dict(num=60 if quick else 400, ops=14, txs='{"p1", "p2", "p3", "p5", "p12", "x1", "t1", "t2"}', driver_args=["-direct", "35"]))
    groups = xc.gen(run, plans)
    # directed histories (fixed finding KF_PlayKeepsStaleReader and its variants): a pending pure reader of k1@p1 while a
    # peer block overwrites / deletes k1 through a transaction that is pending on this node too
    S = lambda t: {"op": "submit", "res": "admit", "t": t}
    directed = []
    for w in ("p2", "p3", "p12", "x1"):
        directed.append([S("p1"), S("p5"), S(w), {"op": "mkblock", "p": 1, "res": "ok", "txs": ["p1", w]},
                         {"b": 2, "op": "play", "res": "ok"}, {"op": "submit", "res": "stale", "t": "p5"}])
        directed.append([S("p1"), {"op": "mkblock", "p": 1, "res": "ok", "txs": ["p1"]}, {"b": 2, "op": "play", "res": "ok"},
                         S("p5"), S(w), {"op": "mkblock", "p": 2, "res": "ok", "txs": [w]}, {"b": 3, "op": "play", "res": "ok"},
                         {"op": "submit", "res": "stale", "t": "p5"}, {"op": "restart", "res": "ok"}])
    # the frozen output of t4 (thaws at FrozenAt) spent by t5 at every ledger height around the boundary, submitted to
    # the pool and inside a peer block
    for L in range(0, 4):
        h = [S("t4"), {"op": "mkblock", "p": 1, "res": "ok", "txs": ["t4"]}, {"b": 2, "op": "play", "res": "ok"}]
        for i in range(L):
            h += [{"op": "mkblock", "p": 2 + i, "res": "ok", "txs": []}, {"b": 3 + i, "op": "play", "res": "ok"}]
        directed.append(h + [S("t5"), {"op": "restart", "res": "ok"}])
        directed.append(h + [{"op": "mkblock", "p": 2 + L, "res": "ok", "txs": ["t5"]}, {"b": 3 + L, "op": "play", "res": "ok"},
                             {"d": 3 + L, "op": "walk", "prune": False, "res": "ok"}])
    groups[0][1].extend(directed)
    run.cov["directed_histories"] = len(directed)
    xc.replay_validate(run, groups)
    # the ledger's part of the property: a transaction that is on the main chain already is not confirmed again in a block
    # that joins the main chain (ErrTxDuplicated, at the tip and below the fork point of a trunk switch)
    lb = []
    if not run.violations:
        run.tlc_mc("Ledger.tla", "MC_Ledger.cfg", timeout=3000)
        lb = run.tlc_gen("Gen_Ledger.tla", "Gen_Ledger.cfg", 120 if quick else 1200, 18, name="genL", seed=run.seed + 50,
                         consts={"MaxBlocks": 9, "NTx": 3, "MaxTxPerBlock": 2, "MaxOps": 16})
        tracecheck.replay_and_validate(run, lb, driver="ledger-replay", driver_args=["-ntx", "3"],
                                       trace_module="Trace_Ledger.tla", trace_cfg="Trace_Ledger.cfg", name="L")
    lops = [o for b in lb for o in b]
    behs = [b for _, bs, _ in groups for b in bs]
    st = xc.stats(behs)
    run.samples = behs[:2]
    run.cov["op_mix"] = dict(st)
    run.assumptions += ["result classes: sentinel errors ErrUTXONotFound / Frozen / amount mismatch / duplicated / "
                        "ErrRWSetInvalid / ErrDoubleSpent / ErrAlreadyInUnconfirmed = refused-as-not-current; any other refusal "
                        "is class 'other' (never produced by the generated transactions on the unchanged tree)"]
    run.finish(require={"admitted": (st["submit:admit"], 40), "refused_stale": (st["submit:stale"], 20),
                        "plays_with_pool": (st["play:ok"], 10), "walks_ok": (st["walk:ok"], 20), "mines": (st["mine:ok"], 5),
                        "ledger_refused_repeated_transaction": (sum(1 for o in lops if o["op"] == "confirm" and o.get("res") == "fail"), 5)})
