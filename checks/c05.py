"""C05 - failed operations leave no trace; a running node answers like a reopened one.

Spec side: every refusing disjunct of Ledger.tla / XState.tla is UNCHANGED on the observable state (model-checked).
Code side: behaviours that interleave valid operations with failing ones (blocks whose transactions do not apply,
plays that do not extend the pointer, stale / conflicting submissions, refused ledger submissions, walks refused by
the irreversible height) are replayed on the real code; after EVERY step the live observables are validated against
the specification and a second Ledger / State pair is opened on a copy of the data and must answer identically
(fields obs / robs), and the behaviour continues so that a poisoned cache surfaces later in the same trace."""
import vp
import xstate_common as xc
import tracecheck


def check(run):
    if xc.maybe_replay(run):
        return
    quick = run.tier == "quick"
    run.build_harness()
    run.tlc_mc("Ledger.tla", "MC_Ledger.cfg", timeout=3000)
    run.tlc_mc("XState.tla", "MC_XState.cfg", timeout=3000)
    # ledger half: refused submissions, live vs reopened after every step
    lb = run.tlc_gen("Gen_Ledger.tla", "Gen_Ledger.cfg", 60 if quick else 800, 16, name="genL", seed=run.seed,
                     consts={"MaxBlocks": 8, "NTx": 3, "MaxTxPerBlock": 2, "MaxOps": 14})
    tracecheck.replay_and_validate(run, lb, driver="ledger-replay", driver_args=["-ntx", "3", "-reopen", "-faults", "25"],
                                   trace_module="Trace_Ledger.tla", trace_cfg="Trace_Ledger.cfg", name="L")
    # state half
    # state half: (a) live vs reopened after every step, (b) the (j+1)-th storage write of an operation is made to
    # fail (injected write error): the failed attempt must leave live and reopened answers equal to what the first
    # j writes persisted, and the operation is then run again
    plans = [dict(num=45, ops=20, window=1, driver_args=["-reopen", "-direct", "50"]), dict(num=45, ops=20, window=0, driver_args=["-faults", "30"])] if quick else \
            [dict(num=700, ops=22, window=1, driver_args=["-reopen", "-direct", "50"]), dict(num=400, ops=22, window=0, driver_args=["-reopen"], maxb=9),
             dict(num=700, ops=22, window=1, driver_args=["-faults", "30"]), dict(num=300, ops=26, window=0, maxb=9, driver_args=["-faults", "40"])]
    # transactions with a token part AND a key part: one part current, the other stale (the refused half must leave no
    # trace in any cache either), half of the submissions through the public DoTx alone
    mixed = '{"p1", "p2", "p3", "p7", "x1", "x2", "t1", "t3", "t4"}'
    plans.append(dict(num=30 if quick else 400, ops=16, window=0, txs=mixed, driver_args=["-reopen", "-direct", "60"]))
    # long chains with a finality window, bad blocks on the tip: a walk that applies some blocks and then fails must leave
    # the running node's irreversible height equal to what is stored
    plans.append(dict(num=30 if quick else 300, ops=26, window=2, maxb=11, txs='{"t1", "t2", "t3", "t4", "p1", "p2"}', cfg="Gen_XState_fin.cfg", driver_args=["-reopen"]))
    groups = xc.gen(run, plans)
    if not run.violations:
        xc.replay_validate(run, groups)
    behs = [b for _, bs, _ in groups for b in bs]
    st = xc.stats(behs)
    lst = xc.stats(lb)
    run.samples = behs[:1] + lb[:1]
    run.cov["op_mix_state"] = dict(st)
    run.cov["op_mix_ledger"] = dict(lst)
    run.assumptions += ["granularity of a failed Walk (R6): it may leave the state at a completed block boundary with the "
                        "rolled-back pool dropped; everything persisted must equal what is answered live",
                        "injected storage write errors: one failing write per faulted operation, at a seeded position among its first four writes"]
    run.finish(require={"failed_plays": (st["play:fail"], 10), "failed_walks": (st["walk:fail"], 3),
                        "refused_submissions": (st["submit:stale"], 15), "refused_ledger_submissions": (sum(v for k, v in lst.items() if k.endswith(":fail")), 20),
                        "reopen_comparisons": (run.cov.get("trace_events", 0), 500),
                        "injected_write_failures": (run.cov.get("real_faults", 0), 30)})
