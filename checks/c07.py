"""C07 - transaction integrity and authorisation: nothing is spent or invoked unsigned.

(1) TLC model-checks spec/TxAuth.tla (IDEAL) exhaustively: every abstract transaction (versions 1-3 x forms
    address / multi-signer / account-URI signers / account initiator / aggregated XuperSign x per-signer
    signature status x id status x owners of the inputs incl. contract-justified and forged transient entries)
    and every single-field mutation of the rich accepted bases against: VerifyCode (transcription of
    State.VerifyTx) accepts => Authorised (semantic definition); honest transactions of every form are
    accepted; mutations of digest / id fields are rejected; the field table and the encoder grammars agree
    (every semantic field bound by the signing digest of every version); the encoder grammars are injective.
(1b) For every known deviation TLC is run on ACTUAL(KF) and must find a counterexample (evidence).
(2) TLC enumerates the same cases / mutations / encoder structures as JSON (Gen_TxAuth.tla).
(3) harness/cmd/c07 concretises them on a real fixture chain: real keys and signatures, accounts created by
    $acl.NewAccount in a confirmed block, a real paying contract, a transaction marked through the ledger;
    State.VerifyTx for cases and mutated protobufs; real pre-images tokenised (v1/v2), the v3 grammar's
    pre-image hashed against the real digest / id; digest / id pairs for all structure pairs of a section.
    The reflection walk over the Transaction schema must equal the specification's field table (else exit 2).
    Block ops: the transaction inside a peer block applied by State.Walk / State.PlayAndRepost, pool empty or holding
    it, judged by the content in effect afterwards; incl. the family "the entry refers to a marked transaction (token
    input / key input) x the block's height above / at / below the effective height of the mark x the entry passes /
    fails ordinary verification" (the fall-back State.verifyMarked of verifyDAGTxs).
(4) TLC validates the ndjson against Trace_TxAuth.tla: explained by IDEAL -> held; only with a deviation
    listed as known -> KNOWN-FINDING; else VIOLATION. Lines that only bind the grammar to the code (tok, ref)
    give exit 2 when they do not fit (the grammar no longer describes the encoder)."""
import json, os, random, re, shutil
from concurrent.futures import ThreadPoolExecutor
import vp

KF_ALL = ["KF_XuperSignSingleKey", "KF_MarkedRefSoftAccept", "KF_GhostAccountInitiator", "KF_V1OmitsHDInfo",
          "KF_V12OmitsEmpty", "KF_MarkedFlagUncovered", "KF_CoinbaseRider", "KF_PlayPooledIdUnchecked"]
OWN_KNOWN = os.path.join(vp.VERIF, "findings", "C07.known")


def known_deviations():
    """known: lines of KNOWN_FINDINGS.txt and of findings/C07.known (the proposal file of this check); a fixed:
    entry of KNOWN_FINDINGS.txt wins over a proposal.  VERIF_NO_PROPOSED_KNOWN=1 ignores the proposal file."""
    kf = vp.known_findings("C07")
    fixed = {k["key"] for k in kf if k["status"] == "fixed"}
    out = {k["key"]: k["desc"] for k in kf if k["status"] == "known"}
    if os.path.exists(OWN_KNOWN) and not os.environ.get("VERIF_NO_PROPOSED_KNOWN"):
        for line in open(OWN_KNOWN):
            m = re.match(r"\s*known:\s+property=C07\s+(.*?)\s*::\s*(.*)$", line.strip())
            if m:
                km = re.search(r"key=(\S+)", m.group(1))
                if km and km.group(1) not in fixed:
                    out.setdefault(km.group(1), m.group(2))
    return {k: v for k, v in out.items() if k in KF_ALL}


def actual_mc(run, kf, timeout=600):
    """TLC on ACTUAL(kf): the deviation must break a property invariant."""
    d = run._tlc_dir("mcx_" + kf, [])
    cfg = open(os.path.join(vp.SPEC, "MC_TxAuth.cfg")).read()
    cfg = re.sub(r"(?m)^(\s*%s\s*=\s*).*$" % kf, r"\g<1>TRUE", cfg)
    with open(os.path.join(d, "A.cfg"), "w") as f:
        f.write(cfg)
    rc, out, dt = run._tlc(d, ["-workers", "2", "-config", "A.cfg", "TxAuth.tla"], timeout)
    m = re.search(r"Error: Invariant (\w+) is violated", out)
    shutil.rmtree(d, ignore_errors=True)
    if not m:
        vp.log(out[-3000:])
        raise vp.Undecided("TLC did not find a counterexample on ACTUAL(%s): the deviation breaks no invariant" % kf)
    return {"deviation": kf, "invariant_violated": m.group(1), "wall_s": round(dt, 1)}


def last_json(out):
    for line in reversed(out.strip().splitlines()):
        if line.startswith("{") or line.startswith("["):
            return json.loads(line)
    raise vp.Undecided("driver printed no JSON")


def add_stats(acc, st):
    for k, v in st.items():
        if isinstance(v, dict):
            d = acc.setdefault(k, {})
            for kk, vv in v.items():
                d[kk] = d.get(kk, 0) + vv
        else:
            acc[k] = acc.get(k, 0) + v


def validate(run, trace, name, kf_consts, known, ops_of):
    """TLC validation of one ndjson file.  Returns True if every line is explained."""
    res = run.tlc_validate("Trace_TxAuth.tla", "Trace_TxAuth.cfg", trace, name=name + "_val", consts=kf_consts, timeout=1500)
    return judge(run, res, trace, kf_consts, known, ops_of)


def judge(run, res, trace, kf_consts, known, ops_of):
    """Bookkeeping and verdict for one validated ndjson file (main thread)."""
    run.cov["trace_events"] = run.cov.get("trace_events", 0) + res["len"]
    run.cov["lines_allowed_but_not_as_transcribed"] = run.cov.get("lines_allowed_but_not_as_transcribed", 0) + (res.get("inexact") or 0)
    if res["hw"] == res["len"] + 1:
        for k in res.get("dev", []) or []:
            run.known(known.get(k, k))
        run.cov["traces_validated_against_impl"] = run.cov.get("traces_validated_against_impl", 0) + 1
        return True
    div = res["div"]
    events = vp.read_ndjson(trace)
    at = div.get("at", 0)
    ev = events[at - 1] if 0 < at <= len(events) else {}
    if div.get("op") in ("tok", "ref"):
        raise vp.Undecided("the encoder grammar of the specification no longer describes the code (%s line %s: expected %s, real %s)"
                           % (div.get("op"), json.dumps({k: ev.get(k) for k in ("v", "signs", "st")}), json.dumps(div.get("exp"))[:300], json.dumps(div.get("act"))[:300]))
    if div.get("op") == "fixture":
        raise vp.Undecided("the access-control rules read back from the fixture chain are not the rules of spec/TxAuth.tla: %s" % json.dumps(ev)[:600])
    what = {"case": "State.VerifyTx / Chain.SubmitTx on the concretised transaction",
            "blk": "the transaction inside a peer block (Ledger.ConfirmBlock, then State.Walk / State.PlayAndRepost), content in effect afterwards",
            "cb": "peer block whose coinbase transaction carries a rider (ConfirmBlock + PlayAndRepost)", "mut": "State.VerifyTx / Chain.SubmitTx after the field mutation",
            "pair": "real digests / ids of two transactions that differ in a covered field",
            "shift": "real digests / ids after moving a byte across a field boundary"}.get(div.get("op"), div.get("op"))
    desc = "%s: specification allows %s, real code: %s; %s" % (what, json.dumps(div.get("exp")), json.dumps(div.get("act")),
                                                               json.dumps({k: v for k, v in ev.items() if k not in ("tr", "i")}, sort_keys=True)[:900])
    run.violation(desc, {"property": "C07", "driver": "c07 " + ops_of, "seed": run.seed, "tier": run.tier, "known_deviations_enabled": sorted(kf_consts),
                         "program": [{k: v for k, v in ev.items() if k in ("op", "t", "m", "r", "hon", "v", "sec", "a", "b", "j", "pool", "via", "mh")}],
                         "first_unexplained_event": ev, "expected": div.get("exp"), "actual": div.get("act")})
    return False


def run_shard(run, ops, name, kf_consts):
    """One driver process over ops and the TLC validation of its recording (worker thread: no verdicts here)."""
    d = run.sub(name + "_in")
    for f in os.listdir(d):
        os.remove(os.path.join(d, f))
    with open(os.path.join(d, "b_0.json"), "w") as f:
        json.dump(ops, f)
    trace = os.path.join(run.work, name + ".ndjson")
    st = last_json(run.harness(["cases", "-in", d, "-out", trace, "-tag", name]))
    res = run.tlc_validate("Trace_TxAuth.tla", "Trace_TxAuth.cfg", trace, name=name + "_val", consts=kf_consts, timeout=1500)
    return st, res, trace


def run_cases(run, ops, name, kf_consts, known, stats, shards=1):
    """ops on the real code in `shards` parallel driver processes (each builds its own fixture chain), each recording
    validated by TLC; verdicts in shard order."""
    parts = [ops[k::shards] for k in range(shards)]
    parts = [p for p in parts if p]
    with ThreadPoolExecutor(max_workers=max(1, len(parts))) as pool:
        futs = [pool.submit(run_shard, run, part, "%s_%d" % (name, k), kf_consts) for k, part in enumerate(parts)]
        outs = [f.result() for f in futs]
    ok = True
    for st, res, trace in outs:
        add_stats(stats, st)
        if ok and not judge(run, res, trace, kf_consts, known, "cases"):
            ok = False
        os.remove(trace)
    return ok


def check(run):
    quick = run.tier == "quick"
    rnd = random.Random(run.seed)
    known = known_deviations()
    kf_consts = {k: "TRUE" for k in known}
    run.build_harness("c07")

    if run.replay:
        rp = json.load(open(run.replay))
        run.seed = rp.get("seed", run.seed)
        ops = rp["program"]
        stats = {}
        if ops and ops[0].get("op") in ("case", "mut", "cb", "blk"):
            run_cases(run, ops, "replay", kf_consts, known, stats)
        else:
            raise vp.Undecided("replay of encoder pairs: run the check (the pair is enumerated deterministically)")
        run.cov["driver"] = stats
        run.finish()

    # (1b) every known deviation is a real deviation of the model (small JVMs beside the main model check)
    design = ThreadPoolExecutor(max_workers=4)
    futs = [design.submit(actual_mc, run, kf) for kf in KF_ALL if kf in known]
    # (1) the design: IDEAL holds all property invariants (runs beside the generation and the driver)
    mc = design.submit(run.tlc_mc, "TxAuth.tla", "MC_TxAuth.cfg" if quick else "MC_TxAuth_thorough.cfg", None, 6, 800)

    def design_done():
        mc.result()
        run.cov["tlc_counterexamples_on_actual"] = [f.result() for f in futs]
        design.shutdown()
    # minimal reproductions on the real code (plain facts; evidence)
    run.cov["real_code_reproductions"] = last_json(run.harness(["probe"]))

    # (2) TLC enumerates cases, mutations, encoder structures
    consts = {} if quick else {"MaxDev": 2, "FullOwners": "TRUE"}
    behs = run.tlc_gen("Gen_TxAuth.tla", "Gen_TxAuth.cfg", 1, 3, consts=consts, timeout=800)
    if len(behs) != 4 or behs[0][0].get("op") != "schema":
        raise vp.Undecided("generation did not produce the four case files")
    table, cases, muts, grams = behs[0][0]["fields"], behs[1], behs[2], behs[3]
    run.cov["cases_enumerated"] = len(cases)
    run.cov["mutations_enumerated"] = len(muts)

    # the reflection walk over the real schema must be the specification's field table
    real = last_json(run.harness(["schema"]))
    want = {f["name"]: (f["kind"], f["sub"]) for f in table}
    got = {f["name"]: (f["kind"], f["sub"]) for f in real}
    if want != got:
        unknown = sorted(set(got) - set(want))
        stale = sorted(set(want) - set(got))
        changed = sorted(k for k in set(want) & set(got) if want[k] != got[k])
        raise vp.Undecided("the Transaction schema differs from the field table of spec/TxAuth.tla (it cannot be decided mechanically "
                           "whether a new field is semantic): unknown to the table %s, stale in the table %s, kind changed %s" % (unknown, stale, changed))

    # block-borne transactions: cases and mutations combined with the block plans (pool x via) TLC lists.
    # thorough: every mutation and every honest case under every plan; quick: every mutation against the pool that
    # holds its base (Walk / PlayAndRepost alternating), every honest case under two plans; a sample of the rest.
    nomut, pools, vias = behs[0][0]["nomut"], behs[0][0]["pools"], behs[0][0]["vias"]
    if sorted(pools) != ["base", "none"] or sorted(vias) != ["play", "walk"]:
        raise vp.Undecided("unexpected block plans in the generated files")
    only_muts = [m for m in muts if m["op"] == "mut"]
    honest = [c for c in cases if c.get("hon")]
    others = [c for c in cases if not c.get("hon")]
    blks = []

    def blk(t, m, pool, via, mh="above"):
        blks.append({"op": "blk", "t": t, "m": m, "pool": pool, "via": via, "mh": mh})
    for j, m in enumerate(only_muts):
        v = (j + run.seed) % 2
        if quick:
            blk(m["t"], m["m"], "base", vias[v])
            if j % 4 == 0:
                blk(m["t"], m["m"], "none", vias[(j // 4 + run.seed) % 2])
        else:
            for pool in pools:
                for via in vias:
                    blk(m["t"], m["m"], pool, via)
    for j, c in enumerate(rnd.sample(honest, min(len(honest), 700 if quick else 2500))):
        v = (j + run.seed) % 2
        if quick:
            blk(c["t"], nomut, "base", vias[v])
            blk(c["t"], nomut, "none", vias[1 - v])
        else:
            for pool in pools:
                for via in vias:
                    blk(c["t"], nomut, pool, via)
    for j, c in enumerate(rnd.sample(others, min(len(others), 800 if quick else 8000))):
        blk(c["t"], nomut, "base" if j % 5 == 0 else "none", vias[(j + run.seed) % 2])
    # the family "the entry refers to a transaction the regulator marked" (spends one of its outputs): the block's
    # height above / at / below the effective height of the mark x the entry passes / fails ordinary verification
    # (owner not among the signers, corrupted / foreign / replayed signature, stale id) x Walk / PlayAndRepost, never
    # seen by the node; and, for the entries the code accepts, beside the pool that holds them - unchanged, and with
    # signature bytes, id field or content changed under the old / a recomputed id.
    mhs, mkmuts = behs[0][0]["mhs"], behs[0][0]["mkmuts"]
    if sorted(mhs) != ["above", "at", "below"] or len(mkmuts) < 4:
        raise vp.Undecided("unexpected plans of the marked-transaction family in the generated files")
    mk_acc = [c for c in cases if c.get("mk") and c.get("acc")]
    mk_rej = [c for c in cases if c.get("mk") and not c.get("acc")]
    n_before = len(blks)
    for c in rnd.sample(mk_rej, min(len(mk_rej), 400 if quick else 4000)) + rnd.sample(mk_acc, min(len(mk_acc), 100 if quick else 400)):
        for mh in mhs:
            for via in vias:
                blk(c["t"], nomut, "none", via, mh)
    for c in rnd.sample(mk_acc, min(len(mk_acc), 36 if quick else 200)):
        for mh in mhs:
            for via in vias:
                blk(c["t"], nomut, "base", via, mh)
                for m in mkmuts:
                    blk(c["t"], m, "base", via, mh)
    run.cov["block_ops_marked_family"] = len(blks) - n_before
    run.cov["block_ops_enumerated"] = len(blks)

    # (3) + (4) cases, mutations and block ops on the real code, validated by TLC
    stats = {}
    rnd.shuffle(cases)              # the seed decides the order (nonces, which funded output a case names) and the keys
    ops = muts + blks + cases
    ok = run_cases(run, ops, "c", kf_consts, known, stats, shards=4 if quick else 8)
    run.cov["driver"] = stats
    if not ok:
        design_done()
        run.finish()

    # part (c): encoder grammars
    d = run.sub("gram_in")
    with open(os.path.join(d, "b_0.json"), "w") as f:
        json.dump(grams, f)
    trace = os.path.join(run.work, "gram.ndjson")
    gstats = last_json(run.harness(["gram", "-in", d, "-out", trace]))
    # pairs decide (a collision of the real digests is a verdict), binding lines (tok / ref) come last
    lines = vp.read_ndjson(trace)
    amb_real = {}
    for e in lines:
        if e["op"] == "pair" and (e["ideq"] or e["deq"]):
            key = "v%d/%s" % (e["v"], e["sec"])
            secs = {s["name"]: s for g in grams if g["v"] == e["v"] for s in g["secs"]}
            if e["ideq"] or not secs[e["sec"]]["signs"]:
                amb_real[key] = amb_real.get(key, 0) + 1
    amb_tlc = {"v%d/%s" % (g["v"], s["name"]): s["amb"] for g in grams for s in g["secs"] if s["amb"]}
    run.cov["ambiguous_structure_pairs"] = {"found_by_tlc_on_the_code_grammar": amb_tlc, "equal_digest_and_id_on_real_code": amb_real}
    vp.write_ndjson(trace, [e for e in lines if e["op"] in ("pair", "shift")] + [e for e in lines if e["op"] not in ("pair", "shift")])
    ok = validate(run, trace, "gram", kf_consts, known, "gram")
    os.remove(trace)
    add_stats(stats, {k: v for k, v in gstats.items() if k.startswith("gram_")})
    run.samples = [cases[0], muts[0]]
    run.assumptions += [
        "hashes are collision free and signatures unforgeable (DESIGN section 8); ECDSA malleability is not a subject: bytes appended to a "
        "DER signature (ignored by the decoder) or redundant valid / ignored signature entries give, with a recomputed id, another "
        "transaction id for the same authorised content - allowed either way",
        "JSON values inside the v1/v2 stream (tx_outputs, contract_requests, auth_require, signature lists) are self-describing: taken as injective",
        "rule evaluation beyond one-level threshold rules is C11's subject; contract method rules are absent on the fixture chain",
        "a verifier that panics is recorded as a rejection (%d panics in this run)" % stats.get("panics", 0),
    ]
    design_done()
    if run.violations or not ok:
        run.finish()
    untouched = [f["name"] for f in table if not stats.get("touched", {}).get(f["name"])]
    if untouched:
        raise vp.Undecided("fields of the specification's table no enumerated mutation touched on the real protobuf: %s" % untouched)
    by = stats.get("by_form", {})
    n_cases, n_ok, n_rej, n_form = (15000, 600, 12000, 250) if quick else (150000, 1400, 140000, 800)
    req = {"cases": (stats.get("cases", 0), n_cases), "accepted": (stats.get("by_res", {}).get("ok", 0), n_ok),
           "rejected": (stats.get("by_res", {}).get("rej", 0), n_rej), "honest_accepted": (stats.get("honest_accepted", 0), 500),
           "mutations_applied": (stats.get("mutations", 0), 1500), "mutations_rejected": (stats.get("mut_res", {}).get("rej", 0), 1200),
           "schema_fields_walked": (len(real), len(table)), "schema_fields_touched": (len(table) - len(untouched), len(table)),
           "grammar_token_streams": (stats.get("gram_tok_lines", 0), 200), "grammar_v3_preimages": (stats.get("gram_ref_lines", 0), 200),
           "grammar_structure_pairs": (stats.get("gram_pair_lines", 0), 20000)}
    # the signer-list / account-rule / aggregated-signature families
    fam = stats.get("families", {})
    for f, mn, mn_ok in (("signer_uri_listed_twice", 1500, 100), ("key_through_two_uris", 400, 50), ("account_initiator_signed_twice_by_one_key", 300, 0),
                         ("repeated_signer_and_account_owned_input", 150, 2), ("input_of_account_T", 40, 3), ("input_of_account_L", 40, 0),
                         ("input_of_account_S", 40, 1), ("input_of_account_K", 40, 2), ("xsign_account_initiator", 2000, 0),
                         ("xsign_account_initiator_named_in_signers", 1000, 0), ("xsign_account_initiator_not_named", 1000, 0),
                         ("xsign_account_owned_input", 400, 3)):
        req["family_" + f] = (fam.get(f, 0), mn)
        if mn_ok:
            req["family_" + f + "_accepted"] = (fam.get(f + ":ok", 0), mn_ok)
    # the engine entry: every transaction State.VerifyTx did not accept was also handed to Chain.SubmitTx
    sub = stats.get("submit", {})
    req["submit_tx_asked"] = (sum(sub.values()), n_rej)
    # block-borne transactions
    bb = stats.get("block_by", {})
    req["block_ops"] = (stats.get("block_ops", 0), 3500 if quick else 14000)
    for kind in ("case", "mut"):
        for pool in ("none", "base"):
            for via in ("walk", "play"):
                req["block_%s_%s_%s" % (kind, pool, via)] = (bb.get("%s/%s/%s" % (kind, pool, via), 0), 60 if quick else 800)
    req["block_pool_holds_the_base"] = (bb.get("pooled_in", 0), 1500 if quick else 4000)
    for via in ("walk", "play"):
        req["block_changed_entry_under_pooled_id_" + via] = (bb.get("changed_entry_under_pooled_id/" + via, 0), 250 if quick else 800)
    req["block_accepted_entry_in_effect"] = (sum(v for k, v in bb.items() if ":ok:e" in k), 500)
    req["block_refused_nothing_in_effect"] = (sum(v for k, v in bb.items() if ":rej:n" in k or ":rej:p" in k or ":rej:np" in k), 800)
    # the marked-transaction family: every height x way, entries that fail ordinary verification and entries that pass
    n_f, n_p, n_pool = (250, 60, 150) if quick else (500, 100, 300)
    for mh in ("above", "at", "below"):
        for via in ("walk", "play"):
            for o, mn in (("fails", n_f), ("passes", n_p)):
                req["block_marked_ref_%s_%s_%s" % (mh, via, o)] = (bb.get("mk/%s/%s/none/%s" % (mh, via, o), 0), mn)
            req["block_marked_ref_%s_%s_pool_holds_it" % (mh, via)] = (sum(bb.get("mk/%s/%s/base/%s" % (mh, via, o), 0) for o in ("fails", "passes")), n_pool)
            req["block_marked_ref_%s_%s_failing_refused_nothing_in_effect" % (mh, via)] = (
                sum(v for k, v in bb.items() if k.startswith("mk/%s/%s/" % (mh, via)) and "/fails:rej:" in k and k.split(":")[2] in ("n", "p", "np")), n_f)
            req["block_marked_ref_%s_%s_passing_in_effect" % (mh, via)] = (
                sum(v for k, v in bb.items() if k.startswith("mk/%s/%s/" % (mh, via)) and "/passes:ok:" in k and "e" in k.split(":")[2]), n_p)
    # ... by the kind of reference: a token input spending an output of the marked transaction / a key input naming the
    # version it wrote (marked on the node's copy after the copy has read the key)
    for ref, mn_f, mn_p in (("token", 150, 30), ("key", 100, 25)):
        for mh in ("above", "at", "below"):
            for via in ("walk", "play"):
                req["block_marked_%s_ref_%s_%s_failing_refused" % (ref, mh, via)] = (bb.get("mkref/%s/%s/%s/fails:rej" % (ref, mh, via), 0), mn_f)
                req["block_marked_%s_ref_%s_%s_passing_applied" % (ref, mh, via)] = (bb.get("mkref/%s/%s/%s/passes:ok" % (ref, mh, via), 0), mn_p)
    for why, mn in (("fails/signatures-valid", 300), ("fails/stale-id", 300), ("fails/signature-junk-this", 60), ("fails/signature-kx-this", 60),
                    ("fails/signature-bytes-changed", 60), ("fails/id-field-changed", 60), ("fails/field-changed:fixid", 60), ("fails/field-changed:none", 60)):
        req["block_marked_ref_" + why.replace("/", "_")] = (bb.get("mkwhy/" + why, 0), mn)
    req["coinbase_blocks_played"] = (sum(v for k, v in stats.get("by_res", {}).items() if k.startswith("cb:")), 2)
    for f in ("address", "multi-address", "multi-account-uris", "account-initiator", "account-initiator+signers", "xsign0", "xsign1", "xsign2"):
        req["form_" + f] = (by.get(f, 0), n_form)
    for v in ("flip", "clear", "append", "inc", "drop", "dup", "swap", "add", "nil", "addkey", "delkey", "chval"):
        for s in ("none", "fixid"):
            req["mut_%s_%s" % (v, s)] = (stats.get("mut_by_var", {}).get(v + "/" + s, 0), 5)
    run.finish(require=req)
