"""C02 - token conservation: supply changes only by coinbase, every token is in one place.

XState.tla invariant Conservation (sum of unspent outputs + pending fee outputs = total = genesis + awards of
the applied blocks) is model-checked; generated behaviours are replayed on the real state machine in three
amount concretisations (small; scaled by 2^70+3, i.e. beyond 64 bit; scaled + leading-zero output encodings)
and GetTotal / GetBalance of every address / the raw UTXO table scan are validated after every step."""
import vp
import xstate_common as xc

BIG = str(2 ** 70 + 3)


def check(run):
    if xc.maybe_replay(run):
        return
    quick = run.tier == "quick"
    run.build_harness()
    run.tlc_mc("XState.tla", "MC_XState_tok.cfg" if quick else "MC_XState_tok_thorough.cfg", timeout=3000)
    tok = '{"t1", "t2", "t3", "t4", "t5", "t6", "t7", "t8", "w1", "w2", "w3", "w4", "w5", "w6", "c1", "p1", "p2"}'
    base = [dict(num=70, ops=18, txs=tok)] if quick else [dict(num=800, ops=20, txs=tok), dict(num=400, ops=28, maxb=9, txs=tok)]
    groups = xc.gen(run, base)
    variants = [[], ["-scale", BIG], ["-scale", BIG, "-enc", "lz"]]
    for v in variants:
        xc.replay_validate(run, groups, extra_driver_args=v)
        if run.violations:
            break
    # a decaying award schedule: the total supply grows by CalcAward(height) per applied block, and shrinks by it on undo
    if not run.violations:
        dgroups = xc.gen(run, [dict(num=30 if quick else 300, ops=22, maxb=10, txs=tok, consts={"AwardSched": "<- DecaySched"})], tag="d")
        xc.replay_validate(run, dgroups)
        groups = groups + dgroups
    # engine level: pushed blocks with a wrong award must be refused by Miner.ProcBlock (IsValidTx / CalcAward)
    est = {}
    if not run.violations:
        ebehs, est = xc.engine_phase(run, 35 if quick else 400)
        badaward = sum(1 for b in ebehs for o in b if o.get("kind") == "badaward")
        run.cov["engine_badaward_pushes"] = badaward
    behs = [b for _, bs, _ in groups for b in bs]
    st = xc.stats(behs)
    ops = [o for b in behs for o in b]
    fee = sum(1 for o in ops if o["op"] == "submit" and o.get("t") in ("t1", "t6") and o["res"] == "admit")
    zero = sum(1 for o in ops if o.get("t") == "t4" and o["res"] == "admit") + sum(1 for o in ops if "t4" in (o.get("txs") or []))
    run.samples = behs[:2]
    run.cov["op_mix"] = dict(st)
    run.cov["amount_variants"] = ["x1", "x(2^70+3)", "x(2^70+3) with leading-zero output encodings"]
    run.assumptions += ["big-integer arithmetic of math/big is trusted; the specification is scale invariant, amounts in the "
                        "spec are small integers", "non-canonical input encodings are only required to be conserved-or-refused"]
    run.finish(require={"fee_payers_admitted": (fee, 5), "zero_value_outputs": (zero, 3), "mines": (st["mine:ok"], 5),
                        "walks_ok": (st["walk:ok"], 10), "undone_blocks_or_plays": (st["play:ok"] + st["walk:ok"], 20),
                        "engine_pushes": (run.cov.get("real_pushes", 0), 100), "engine_badaward_pushes": (run.cov.get("engine_badaward_pushes", 0), 3)})
