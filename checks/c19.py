"""C19 - governance tokens are conserved; locks bind and only lock/unlock changes them.

(1) TLC model-checks spec/GovToken.tla (IDEAL: every KF_* constant FALSE) exhaustively: all call sequences
    with at most MaxH successful calls (any number of refused calls in between) of Init / Transfer (to self,
    to a fresh account, amount 0, more than available) / direct Lock, UnLock, CheckVoteResult, Trigger /
    Propose / Vote / Thaw / tdpos nominate, revoke nomination, vote, revoke vote / Tick over 3 accounts, against
    Conservation, LocksBind,
    NonNegative, LockAccounting and the action properties LocksOnlyByLockUnlock, CallerRestriction,
    TransferRespectsLocks.
(2) TLC simulates the same actions (Gen_GovToken) and dumps call sequences; (3) harness/cmd/c19 executes
    every call on the real $govern_token / $proposal / $timer_task / $tdpos kernel contracts of a fixture node
    (pre-execution in a fresh sandbox, then a signed transaction through State.VerifyTx + DoTx and a block
    with that height's timer transaction), recording result class + public query answers after each call;
(4) TLC validates the recorded trace against the same actions (Trace_GovToken), first IDEAL, then with the
    deviations listed as known in KNOWN_FINDINGS.txt / findings/C19.known."""
import json, os, re
import vp
import tracecheck

# the deviations of spec/GovToken.tla (constant name = key in KNOWN_FINDINGS.txt); text used if the file has none
KF_DESC = {
    "KF_SelfTransferMints": "$govern_token.Transfer with to == initiator credits the amount without debiting it",
    "KF_TransferResetsReceiverLocks": "$govern_token.Transfer rewrites the receiver's record with zero locked amounts",
    "KF_UnlockSkipsLowercaseAddr": "$proposal.unlockGovernTokensForProposal never visits lock records of accounts whose "
                                   "address starts with a lowercase letter",
}
LOWS = [["b"], ["a"], ["a", "c"], [], ["b", "c"], ["a", "b", "c"]]


def known_c19():
    """Keys listed as known: in KNOWN_FINDINGS.txt or in the proposed findings/C19.known (same format)."""
    keys = dict(vp.known_keys("C19"))
    fixed = {k["key"] for k in vp.known_findings("C19") if k["status"] == "fixed"}
    prop = os.path.join(vp.VERIF, "findings", "C19.known")
    if os.path.exists(prop):
        for line in open(prop):
            m = re.match(r"known:\s+property=C19\s+(.*?)\s*::\s*(.*)$", line.strip())
            if m:
                km = re.search(r"key=(\S+)", m.group(1))
                if km and km.group(1) not in fixed:     # a fixed entry of the committed file wins
                    keys.setdefault(km.group(1), m.group(2))
    return keys


class Stats:
    def __init__(self):
        self.c = {}

    def add(self, k, n=1):
        self.c[k] = self.c.get(k, 0) + n

    def scan(self, events):
        """Exercise counters, computed from the recorded trace (previous observables + call + result)."""
        prev = None
        for e in events:
            if e["op"] == "reset":
                prev = None
                continue
            op, res, obs = e["op"], e["res"], e["obs"]
            idx = {"a": 0, "b": 1, "c": 2}
            self.add("calls")
            self.add("calls_" + res)
            if op == "transfer":
                p = prev["acc"][idx[e["by"]]] if prev else None
                if res == "ok" and e["by"] == e["to"]:
                    self.add("self_transfers")
                elif res == "ok":
                    self.add("transfers_ok")
                    if e["amt"] == 0:
                        self.add("transfers_zero")
                    if prev and not prev["acc"][idx[e["to"]]]["ex"]:
                        self.add("transfers_to_fresh")
                    if p and max(p["lo"], p["lt"]) > 0:
                        self.add("transfers_ok_with_lock")
                    if p and p["bal"] - max(p["lo"], p["lt"]) == e["amt"] and e["amt"] > 0:
                        self.add("transfers_exactly_available")
                elif p and p["ex"]:
                    if p["bal"] >= e["amt"] and max(p["lo"], p["lt"]) > 0:
                        self.add("transfers_refused_by_lock")      # enough tokens, but locked
                    else:
                        self.add("transfers_refused_over_balance")
            elif op in ("lock", "unlock", "check", "trigger") and res == "fail":
                self.add("direct_%s_refused" % op)
            elif op in ("propose", "vote") and res == "ok":
                self.add("lock_via_proposal")
            elif op == "thaw" and res == "ok":
                self.add("unlock_via_thaw")
            elif op in ("tnom", "tvote") and res == "ok":
                self.add("lock_via_tdpos")
                self.add("tdpos_" + op)
            elif op in ("trevnom", "trevoke") and res == "ok":
                self.add("unlock_via_tdpos")
                self.add("tdpos_" + op)
            if prev:
                for pp, pn in zip(prev["props"], obs["props"]):
                    if pp["st"] != pn["st"] and pn["st"] in ("rejected", "passed", "completed_success", "completed_failure"):
                        self.add("timer_" + pn["st"])
                        if pn["st"] != "passed":
                            self.add("unlock_via_timer")
            prev = obs


def replay_and_validate(run, behs, low, maxprops, known, stats, name):
    """One batch: replay on the real contracts, validate IDEAL, then ACTUAL(known deviations)."""
    d = tracecheck.dump_behaviours(run, behs, name + "_in")
    trace = os.path.join(run.work, name + ".ndjson")
    args = ["replay", "-in", d, "-out", trace, "-props", maxprops, "-low", ",".join(low)]
    out = run.harness(args)
    try:
        dstats = json.loads(out.strip().splitlines()[-1])
    except Exception:
        raise vp.Undecided("driver printed no statistics")
    events = vp.read_ndjson(trace)
    stats.scan(events)
    stats.add("driver_refused_insufficient", dstats.get("transfer_refused_insufficient", 0))
    consts = {"MaxProps": str(maxprops), "LowAcc": "{" + ", ".join('"%s"' % a for a in low) + "}"}
    res = run.tlc_validate("Trace_GovToken.tla", "Trace_GovToken.cfg", trace, name=name + "_val", consts=consts)
    run.cov["trace_events"] = run.cov.get("trace_events", 0) + res["len"]
    ok = res["hw"] == res["len"] + 1
    div = res["div"]
    if not ok and known:
        c2 = dict(consts)
        c2.update({k: "TRUE" for k in known})
        res2 = run.tlc_validate("Trace_GovToken.tla", "Trace_GovToken.cfg", trace, name=name + "_valkf", consts=c2)
        if res2["hw"] == res2["len"] + 1:
            ok = True
            for k in res2.get("dev", []) or []:
                run.known("deviation=%s :: %s" % (k, known.get(k) or KF_DESC[k]))
                stats.add("kf_" + k)
        else:
            div = res2["div"]
    if ok:
        run.cov["traces_validated_against_impl"] = run.cov.get("traces_validated_against_impl", 0) + len(behs)
        os.remove(trace)
        return True
    at = div.get("at", 0)
    ev = events[at - 1] if 0 < at <= len(events) else {}
    tr = ev.get("tr")
    prog = [e for e in events if e.get("tr") == tr and e.get("op") != "reset"]
    what = "trace %s call %s (%s): expected result %s, actual %s; %s" % (
        tr, ev.get("i"), json.dumps({k: v for k, v in ev.items() if k not in ("obs", "tr", "i", "res", "kf", "tch")}, sort_keys=True),
        div.get("expres"), div.get("actres"), "; ".join(tracecheck.diff_obs(div.get("exp"), div.get("act"))[:8]))
    run.violation(what, {"property": run.pid, "driver": "c19 replay", "driver_args": args[3:], "low": low,
                         "trace_module": "Trace_GovToken.tla", "trace_cfg": "Trace_GovToken.cfg", "consts": consts,
                         "known_deviations_enabled": sorted(known),
                         "program": [{k: v for k, v in e.items() if k not in ("obs", "kf", "tch")} for e in prog],
                         "first_unexplained_call": ev.get("i"), "expected": div.get("exp"), "actual": div.get("act"),
                         "expected_result": div.get("expres"), "actual_result": div.get("actres")})
    os.remove(trace)
    return False


def check(run):
    quick = run.tier == "quick"
    run.build_harness("c19")
    known = known_c19()
    known = {k: v for k, v in known.items() if k in KF_DESC}
    stats = Stats()

    if getattr(run, "replay", None):
        rp = json.load(open(run.replay))
        beh = [{k: v for k, v in e.items() if k not in ("tr", "i")} for e in rp["program"]]
        replay_and_validate(run, [beh], rp.get("low", []), int(rp.get("consts", {}).get("MaxProps", 2)), known, stats, "rp")
        run.finish()

    # quick: <= 5 successful calls, one min_vote_percent / trigger target; thorough adds <= 6 successful calls
    # (reduced parameters) and <= 5 successful calls with all proposal parameters (the full-parameter
    # depth-6 space is ~10^8 transitions)
    run.tlc_mc("GovToken.tla", "MC_GovToken.cfg", timeout=900)
    if not quick:
        run.tlc_mc("GovToken.tla", "MC_GovToken_thorough.cfg", timeout=1500)
        run.tlc_mc("GovToken.tla", "MC_GovToken_full5.cfg", timeout=1500)

    # (number of behaviours, calls per behaviour, MaxProps)
    plans = [(160, 14, 3), (120, 22, 3)] if quick else [(500, 14, 3), (500, 22, 3), (300, 30, 4), (200, 40, 4)]
    batch = 150 if quick else 250
    n = 0
    good = True
    for k, (num, ops, mp) in enumerate(plans):
        behs = run.tlc_gen("Gen_GovToken.tla", "Gen_GovToken.cfg", num, ops + 2, name="gen%d" % k, seed=run.seed * 100 + k,
                           consts={"MaxOps": ops, "MaxProps": mp})
        if not run.samples:
            run.samples = behs[:2]
        for start in range(0, len(behs), batch):
            low = LOWS[(run.seed + n) % len(LOWS)]
            n += 1
            good = replay_and_validate(run, behs[start:start + batch], low, mp, known, stats, "t%d_%d" % (k, start))
            if not good:
                break
        if not good:
            break
    run.cov["exercise_all"] = stats.c
    run.cov["real_calls_executed"] = stats.c.get("calls", 0)
    run.cov["known_deviations_enabled"] = sorted(known)
    run.assumptions += [
        "every call is one transaction in its own block on a single-miner nofee chain (the configuration the governance "
        "token is documented for); the timer transaction of a height is generated after that block's call, as Miner.packBlock does",
        "the $tdpos kernel contract is the real one (tdpos.NewTdposConsensus over the fixture ledger, chained-bft off), used for "
        "its kernel contract only: blocks are produced by the harness, candidates nominate themselves, and the snapshot height "
        "passed to the contract is always the current tip (stale heights are outside the explored region)",
        "amounts are multiples of 500 up to 2500, initial balances 3500 / 1000 / fresh; the proposal lock is the code's constant 1000",
    ]
    c = stats.c.get
    run.finish(require={
        "transfers_ok": (c("transfers_ok", 0), 20),
        "self_transfers": (c("self_transfers", 0), 3),
        "transfers_to_fresh": (c("transfers_to_fresh", 0), 2),
        "transfers_zero": (c("transfers_zero", 0), 3),
        "transfers_refused_by_lock": (c("transfers_refused_by_lock", 0), 5),
        "transfers_refused_over_balance": (c("transfers_refused_over_balance", 0), 5),
        "transfers_ok_with_lock": (c("transfers_ok_with_lock", 0), 3),
        "lock_via_proposal": (c("lock_via_proposal", 0), 20),
        "unlock_via_proposal": (c("unlock_via_thaw", 0) + c("unlock_via_timer", 0), 5),
        "unlock_via_thaw": (c("unlock_via_thaw", 0), 0 if quick else 3),     # ~4 per quick run: reported, not required
        "unlock_via_timer": (c("unlock_via_timer", 0), 3),
        "lock_via_tdpos_nominate": (c("tdpos_tnom", 0), 3),
        "lock_via_tdpos_vote": (c("tdpos_tvote", 0), 3),
        "unlock_via_tdpos": (c("unlock_via_tdpos", 0), 2),
        "direct_lock_refused": (c("direct_lock_refused", 0), 5),
        "direct_unlock_refused": (c("direct_unlock_refused", 0), 5),
    })
