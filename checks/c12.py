"""C12 - concurrent submissions are serialisable: conflict-free admission, no deadlock.

Specification spec/SpinLock.tla: processes DoTx(tx) / SelectUtxos(addr, amount, lock) / Play(block) / Walk(block) at
the granularity of the lock protocol's atomic steps (per key LoadOrStore, refCounter.Add; pool check, validate,
batch write, publish; per key Release, Delete; tryLockKey under MutexMem; RW mutex: play and walk exclusive), bound to
bcs/ledger/xledger/state by

(0) the lock table on its own (spec/LockTable.tla): TLC-generated sequences of whole TryLock / Unlock calls of three
    clients on one real utxo.SpinLock; result and IsLocked of every key after each call are judged by
    spec/Trace_LockTable.tla (a change of the protocol's structure is judged at its own level, whether or not the
    step model below still describes the code);

(1) TLC model checks of the IDEAL lock protocol (atomic reader/writer key lock): exclusion per key in the
    critical section, conflict-free admitted set, selections disjoint, final state = some serial order, nothing
    left locked, no deadlock; termination under weak fairness (liveness configuration);
(2) the ACTUAL protocol (the code's two steps per shared key) is refuted by TLC (two "find" configurations); the
    counterexample schedules are replayed on the real goroutines through the yield points of /repo (build tag
    verif) used as blocking gates. A reproduced bad observable is a finding (known deviation
    KF_SharedLockRefCountRace or VIOLATION), an unreproduced one only a design warning (R4);
(3) conformance: TLC enumerates every schedule of two concurrent requests over all conflict patterns (up to
    commutation of adjacent independent steps) and simulates schedules of 3-4 requests; harness/cmd/c12 replays
    each on the real State with real signed transactions: one goroutine released per step, the site it parks at
    next is compared with the schedule (binding), results and final observables are recorded;
    spec/Trace_SpinLock.tla judges every run (overlap of conflicting critical windows seen at the gates, outcome
    serialisable, balances, one-at-a-time epilogue); the step model's own prediction is compared as well;
(4) free-running stress runs (no gates, seeded request mix) judged by the same trace specification; thorough
    tier: the same driver built with -race as a sensor (a report on the lock table is a trace event no action
    explains; other reports are diagnostics in the evidence).

Scenario families: kv (contract keys), tok (outputs, selections), mix (MIXED transactions m1..m5 with a token part AND
a key part; pairs in conflict on the key only, the output only, both; the schedules include the window of
Chain.SubmitTx - both verified, the winner writes, the loser is refused inside doTxInternal with its inputs unspent).
The driver asks State.GetBalance of every party BEFORE the requests of every run (fills the node's balance cache) and
after them; Trace_SpinLock compares the answers with the prelude state, with the sum over the raw utxo table and with
the balances implied by the admitted set alone (pending transactions + block).

The played / walked blocks contain a contract invocation the node has not seen (family kv: verified under the
exclusive lock through the real contract and ACL managers, which read the confirmed tip). A request that does not
return within the driver's bound has the result class "hang", which the specification never produces. Every run is
judged by its outcome whether or not it followed its schedule (a run that leaves the schedule is continued as a
seeded random schedule at the code's own yield points): an outcome no one-at-a-time order explains is a VIOLATION;
only when nothing is refuted and schedules were not followed is the verdict "binding lost" (exit 2).
"""
import concurrent.futures
import glob
import json
import os
import re
import shutil
import subprocess
import time

import vp

PID = "C12"
KF = "KF_SharedLockRefCountRace"
KF_DESC = ("deviation=KF_SharedLockRefCountRace :: SpinLock.TryLock / Unlock (utxo/spin_lock.go) handle a shared key in "
           "two steps (LoadOrStore, then refCounter.Add; refCounter.Release, then Delete): a sharer parked between "
           "LoadOrStore and Add while the last holder releases (count 0) and deletes the entry proceeds without an entry "
           "in the lock table, a writer of the same key then enters (reader and writer inside the critical window "
           "together; schedule of 3 requests p2 || p5 || p6), and with a second writer the sharer's late release deletes "
           "the first writer's entry: both writers are admitted although they supersede the same key version "
           "(p2 || p3 || p5 || p6: pool {p2, p3, p5, p6})")
FINDINGS_KNOWN = os.path.join(vp.VERIF, "findings", "C12.known")
SEL_INTERNAL = ("sel_scan", "sel_unlock")


def known_keys():
    """Deviations listed as known: KNOWN_FINDINGS.txt plus findings/C12.known (same line format;
    VERIF_NO_PROPOSED_KNOWN=1 ignores the proposed ones; a fixed: line wins)."""
    keys = dict(vp.known_keys(PID))
    if os.path.exists(FINDINGS_KNOWN) and not os.environ.get("VERIF_NO_PROPOSED_KNOWN"):
        for line in open(FINDINGS_KNOWN):
            m = re.match(r"\s*known:\s+property=%s\s+(.*?)\s*::\s*(.*)$" % PID, line.strip())
            km = m and re.search(r"key=(\S+)", m.group(1))
            if km:
                keys.setdefault(km.group(1), m.group(2))
    for f in vp.known_findings(PID):
        if f["status"] == "fixed":
            keys.pop(f["key"], None)
    return keys


# ------------------------------------------------------------------------------------------------ TLC helpers
def tla_bool(b):
    return "TRUE" if b else "FALSE"


def patched_cfg(run, cfg, consts):
    """Copy of spec/<cfg> with constants overridden (run.tlc_mc takes no overrides)."""
    txt = open(os.path.join(vp.SPEC, cfg)).read()
    for k, v in consts.items():
        txt = re.sub(r"(?m)^(\s*%s\s*=\s*).*$" % re.escape(k), r"\g<1>%s" % v, txt)
    d = run.sub("cfg")
    path = os.path.join(d, cfg)
    with open(path, "w") as f:
        f.write(txt)
    return path


def mc(run, cfg, consts, workers=16, timeout=900):
    """(called from worker threads: run.tlc_mc only appends to run.cov)"""
    path = patched_cfg(run, cfg, consts)
    res = run.tlc_mc("SpinLock", path, name="mc_" + cfg.replace(".cfg", ""), workers=workers, timeout=timeout)
    res["cfg"] = cfg
    return res


def gen_bfs(run, cfg, consts, name, timeout=600):
    """Breadth-first generation: every complete schedule of the configured scenarios is dumped to <dir>/out."""
    d = run._tlc_dir(name, [patched_cfg(run, cfg, consts)])
    os.makedirs(os.path.join(d, "out"), exist_ok=True)
    rc, out, dt = run._tlc(d, ["-workers", "1", "-config", cfg, "Gen_SpinLock"], timeout)
    if "Model checking completed. No error has been found" not in out:
        vp.log(out[-4000:])
        raise vp.Undecided("schedule enumeration did not complete (%s rc=%d)" % (cfg, rc))
    n = len(os.listdir(os.path.join(d, "out")))
    run.cov.setdefault("generation", []).append({"module": "Gen_SpinLock", "cfg": cfg, "mode": "exhaustive",
                                                   "behaviours": n, "wall_s": round(dt, 1)})
    return d


def mc_find(run, cfg, consts, name, timeout=600):
    """Model check of the ACTUAL protocol that is expected to be refuted; returns the final state of the
    counterexample (TLC -dumpTrace json) or None when TLC found no violation."""
    d = run._tlc_dir(name, [patched_cfg(run, cfg, consts)])
    rc, out, dt = run._tlc(d, ["-workers", "4", "-config", cfg, "-dumpTrace", "json", "cex.json", "SpinLock"], timeout)
    with open(os.path.join(d, "out.txt"), "w") as f:
        f.write(out)
    cex = os.path.join(d, "cex.json")
    m = re.search(r"Error: Invariant (\w+) is violated", out)
    if m and os.path.exists(cex):
        st = json.load(open(cex))["counterexample"]["state"][-1][1]
        run.cov.setdefault("find_runs", []).append({"cfg": cfg, "refuted": m.group(1), "schedule_steps": len(st["hist"]),
                                                     "wall_s": round(dt, 1)})
        return st
    if "Model checking completed. No error has been found" in out:
        run.cov.setdefault("find_runs", []).append({"cfg": cfg, "refuted": None, "wall_s": round(dt, 1)})
        return None
    vp.log(out[-4000:])
    raise vp.Undecided("TLC failed on %s (rc=%d)" % (cfg, rc))


def mc_locktable(run):
    res = run.tlc_mc("LockTable", "MC_LockTable.cfg", name="mc_locktable", workers=2, timeout=300)
    res["cfg"] = "MC_LockTable.cfg"
    # beyond the bounded model: Exclusive / IdleHoldNothing as an inductive invariant of the set-based restatement of the
    # lock table (behaviours of any length; Apalache). Supplementary: never decides, a missing tool is recorded as skipped
    run.apalache_inductive("LockTableInd.tla")
    # the same invariant for ANY set of clients and ANY set of integer keys: TLAPS proof (72 obligations)
    run.tlaps_proof("LockTableProof.tla")
    return res


# ------------------------------------------------------------------------------------------------ harness helpers
def build_race(run):
    out = os.path.join(run.work, "c12race")
    args = ["go", "build", "-race", "-tags", "verif", "-o", out]
    if os.path.realpath(vp.REPO) != "/repo":
        args += ["-modfile", os.path.join(run.work, "alt.go.mod")]      # written by run.build_harness
    t = time.time()
    p = subprocess.run(args + ["./cmd/c12"], cwd=vp.HARNESS, env=vp.GOENV, stdout=subprocess.PIPE,
                       stderr=subprocess.STDOUT, text=True)
    run.cov["race_build_s"] = round(time.time() - t, 1)
    if p.returncode != 0:
        vp.log(p.stdout[-3000:])
        return None          # no race runtime / no cgo here: the sensor is skipped, never a verdict
    return out


class CrashSeen(Exception):
    """a driver process died inside the code under test; the violation is recorded already"""


def drive(run, binary, args, tag, extra_env=None, timeout=900):
    """One driver process with a work directory of its own (several run in parallel)."""
    env = dict(vp.GOENV, VERIF_SEED=str(run.seed), VERIF_TIER=run.tier, VERIF_WORK=run.sub("go_" + tag))
    env.update(extra_env or {})
    try:
        p = subprocess.run([binary] + [str(a) for a in args], cwd=run.work, env=env, stdout=subprocess.PIPE,
                           stderr=subprocess.PIPE, text=True, timeout=timeout)
    except subprocess.TimeoutExpired:
        raise vp.Undecided("driver timed out: %s" % " ".join(map(str, args)))
    crash = vp.real_code_panic(p.stderr) if p.returncode != 0 else None
    if crash:
        # the process of the node died inside the repository's own code (a panic nobody recovered, concurrent map
        # access, a mutex unlocked twice): no action of the specification explains a request that ends like that
        run.violation("the real code crashed the process during concurrent requests: %s in %s" % (crash["msg"], crash["func"]),
                      {"property": PID, "mode": "crash", "driver_args": [str(a) for a in args], "msg": crash["msg"],
                       "func": crash["func"], "stack": crash["stack"]})
        raise CrashSeen()
    if p.returncode != 0:
        vp.log(p.stdout[-2000:])
        vp.log(p.stderr[-6000:])
        keep = os.path.join(vp.VERIF, ".work", "driverfail-C12-%d-%s.txt" % (run.seed, tag))
        with open(keep, "w") as f:
            f.write(p.stderr[-200000:])
        raise vp.Undecided("driver failed (exit %d): %s (stderr kept: %s)" % (p.returncode, " ".join(map(str, args)), keep))
    try:
        return json.loads(p.stdout.strip().splitlines()[-1]), p.stderr
    except Exception:
        return {}, p.stderr


def unit_level(run, thorough):
    """(0) spec/LockTable.tla: generated call sequences on one real utxo.SpinLock, judged by Trace_LockTable."""
    nb = 1200 if thorough else 300
    run.tlc_gen("Gen_LockTable", "Gen_LockTable.cfg", nb, 45, name="genlt", timeout=300)
    d = os.path.join(run.work, "genlt", "out")
    trace = os.path.join(run.work, "unit.ndjson")
    st, _ = drive(run, run.vh, ["unit", "-in", d, "-out", trace], "unit", timeout=300)
    run.cov["lock_table_unit"] = st
    res = run.tlc_validate("Trace_LockTable", "Trace_LockTable.cfg", trace, name="val_unit")
    run.cov["trace_events"] = run.cov.get("trace_events", 0) + res["len"]
    if res["hw"] == res["len"] + 1:
        run.cov["traces_validated_against_impl"] = run.cov.get("traces_validated_against_impl", 0) + res["len"]
        return True
    div = res["div"]
    events = vp.read_ndjson(trace)
    at = div.get("at", 0)
    tr = div.get("tr")
    calls = [e for e in events if e.get("tr") == tr and e.get("i", 0) <= (events[at - 1].get("i", 0) if 0 < at <= len(events) else 0)]
    run.cov["traces_validated_against_impl"] = run.cov.get("traces_validated_against_impl", 0) + max(0, at - 1)
    what = ("utxo.SpinLock, call %d of sequence %s (%s by client %s): result %s, IsLocked(a, b, c) = %s; the lock table of "
            "spec/LockTable.tla gives result %s, locked = %s" % (
                events[at - 1].get("i", -1) if 0 < at <= len(events) else -1, tr, div.get("op"),
                events[at - 1].get("c") if 0 < at <= len(events) else "?", json.dumps(div.get("actres")), json.dumps(div.get("act")),
                json.dumps(div.get("expres")), json.dumps(div.get("exp"))))
    run.violation(what, {"property": PID, "mode": "unit", "calls": calls, "divergence": div})
    return False


def replay(run, catalog, beh_dir, n, tag, shards=4):
    """Gated replay of the n behaviours of beh_dir, in parallel shards; returns the list of trace files."""
    shards = max(1, min(shards, (n + 199) // 200))
    per = (n + shards - 1) // shards
    jobs = []
    for s in range(shards):
        a, b = s * per, min(n, (s + 1) * per)
        if a >= b:
            continue
        out = os.path.join(run.work, "%s_%d.ndjson" % (tag, s))
        jobs.append((out, ["replay", "-catalog", catalog, "-in", beh_dir, "-out", out, "-from", a, "-to", b], "%s%d" % (tag, s)))
    traces = []
    with concurrent.futures.ThreadPoolExecutor(max_workers=len(jobs)) as ex:
        futs = [(out, ex.submit(drive, run, run.vh, args, t)) for out, args, t in jobs]
        for out, f in futs:
            st, _ = f.result()
            if st.get("lockkeys"):
                run.cov["lock_keys_differ_from_specification"] = st["lockkeys"]
            if st.get("truncated"):
                run.cov["replay_stopped_after_hanging_requests"] = True
            for k in ("runs", "steps", "hangs"):
                run.cov["real_" + k] = run.cov.get("real_" + k, 0) + st.get(k, 0)
            traces.append(out)
    return traces


# ------------------------------------------------------------------------------------------------ judging
class Stats:
    def __init__(self, cat):
        self.cat = cat
        self.gated = self.free = 0
        self.overlap = 0            # gated runs with two processes inside the critical window at the same time
        self.conflict_one = 0       # conflicting pairs of transactions of which exactly one was admitted
        self.read_read = 0          # pairs of sharers of a key both admitted
        self.sel_contended = 0      # pairs of locking selectors competing for the same outputs
        self.busy = 0
        self.inexact = []           # gated runs the step model does not describe (binding / prediction)
        self.classes = {}
        self.walks = 0              # walks that returned ok (recovery finished)
        self.walk_submit = 0        # walks that ran while another request was in flight (gated: had started and not returned)
        self.walk_waited = 0        # gated runs in which the walk had to wait for readers (Lock() blocked)
        self.walk_readmit = 0       # walks after which a rolled-back transaction of the run's requests is pending again
        self.contract_blocks = 0    # blocks played / walked whose contract invocation was verified under the exclusive lock
        self.account_blocks = 0     # ... whose spend of an account-owned output was verified under the exclusive lock
        self.plays = 0
        self.mixed_pairs = 0        # pairs of concurrent submissions that both have a token part AND a key part
        self.mixed_pairs_by_kind = {"key": 0, "output": 0, "both": 0, "none": 0}     # ... by what they conflict on
        self.mixed_key_stage = 0    # gated: a mixed submission refused inside doTxInternal for a superseded read while its inputs are unspent
        self.mixed_window = 0       # ... that had passed VerifyTx before the winner's write (window between VerifyTx and DoTx)
        self.mixed_free_refused = 0  # free-running: a mixed submission refused as stale while its inputs are still unspent
        self.bal_compared = 0       # balances answered from the filled balance cache and compared (before / after / after the epilogue)
        self.bal_changed = 0        # ... of parties whose balance the run changed

    def order_sensitive(self, sc):
        """A walk re-submits the rolled-back transactions in no particular order (map iteration): with a reader and a
        writer of one key version among them the step model's prediction is one of several possible outcomes."""
        req = self.cat["req"]
        if not any(req[n]["ty"] == "walk" for n in sc):
            return False
        txs = [req[n]["t"] for n in sc if req[n]["ty"] == "dotx"]
        for i, t in enumerate(txs):
            for u in txs[i + 1:]:
                la = {x["k"]: x["m"] for x in self.cat["lk"][t]}
                lb = {x["k"]: x["m"] for x in self.cat["lk"][u]}
                if any(k in lb and {la[k], lb[k]} == {"S", "X"} for k in la):
                    return True
        return False

    def fam_of(self, sc):
        if any(n in self.cat.get("mixnames", []) for n in sc):
            return "mix"
        return "kv" if sc[0] in self.cat["kvnames"] else "tok"

    def mixed(self, t):
        c = self.cat["tx"][t]
        return bool(c["ins"]) and any(v != "-" for v in c["reads"].values())

    def add_mixed(self, e):
        """Vacuity counters of the mixed transactions and of the balance comparison."""
        req = self.cat["req"]
        sc, res, o = e["sc"], e["res"], e["obs"]
        n = len(sc)
        if e.get("bal0") and len(o.get("bal", [])) == len(e["bal0"]):
            self.bal_compared += 3 * len(e["bal0"])
            self.bal_changed += sum(1 for x, y in zip(e["bal0"], o["bal"]) if x != y)
        mx = [i for i in range(n) if req[sc[i]]["ty"] == "dotx" and self.mixed(req[sc[i]]["t"])]
        for a in range(len(mx)):
            for b in range(a + 1, len(mx)):
                t, u = self.cat["tx"][req[sc[mx[a]]]["t"]], self.cat["tx"][req[sc[mx[b]]]["t"]]
                if sc[mx[a]] == sc[mx[b]]:
                    continue
                self.mixed_pairs += 1
                on_out = bool({tuple(i) for i in t["ins"]} & {tuple(i) for i in u["ins"]})
                on_key = any(t["writes"][k] != "-" and u["reads"][k] != "-" or u["writes"][k] != "-" and t["reads"][k] != "-" for k in t["writes"])
                self.mixed_pairs_by_kind["both" if on_out and on_key else "output" if on_out else "key" if on_key else "none"] += 1
        utxo = {tuple(x) for x in o.get("utxo", [])}
        for i in mx:
            c = self.cat["tx"][req[sc[i]]["t"]]
            if res[i]["c"] != "stale" or not all(tuple(x) in utxo for x in c["ins"]):
                continue
            if not any(v != "-" and o["ver"].get(k) != v for k, v in c["reads"].items()):
                continue
            if e["mode"] != "gated":
                self.mixed_free_refused += 1
                continue
            p = i + 1
            sites = [(j, q, site) for j, (q, site, _) in enumerate(e["steps"])]
            apply_at = [j for j, q, site in sites if q == p and site == "dotx_before_apply"]
            if not apply_at:
                continue            # turned away by VerifyTx: never reached doTxInternal
            self.mixed_key_stage += 1
            ver_at = [j for j, q, site in sites if q == p and site == "verified"]
            wrote = [j for j, q, site in sites if q != p and site == "dotx_after_write"]
            if ver_at and any(ver_at[0] < j < apply_at[0] for j in wrote):
                self.mixed_window += 1

    def conflict(self, t, u):
        a, b = self.cat["tx"][t], self.cat["tx"][u]
        if {tuple(i) for i in a["ins"]} & {tuple(i) for i in b["ins"]}:
            return True
        return any(a["writes"][k] != "-" and b["writes"][k] != "-" and a["reads"][k] == b["reads"][k] for k in a["writes"])

    def sharers(self, t, u):
        la = {x["k"]: x["m"] for x in self.cat["lk"][t]}
        lb = {x["k"]: x["m"] for x in self.cat["lk"][u]}
        return any(la[k] == "S" and lb.get(k) == "S" for k in la)

    def add(self, e):
        req = self.cat["req"]
        sc, res = e["sc"], e["res"]
        self.add_mixed(e)
        for r in res:
            self.classes[r["c"]] = self.classes.get(r["c"], 0) + 1
            if r["c"] == "busy":
                self.busy += 1
        n = len(sc)
        blk = self.cat["fam"][self.fam_of(sc)].get("blk", [])
        contract = [t for t in blk if any(v != "-" for v in list(self.cat["tx"][t]["reads"].values()) + list(self.cat["tx"][t]["writes"].values()))]
        pre = self.cat["fam"][self.fam_of(sc)]["pre"]
        acct = [t for t in blk if any(i[0] == "g" and self.cat["genesis"][i[1]]["to"] == "x" for i in self.cat["tx"][t]["ins"])]
        for i in range(n):
            ty = req[sc[i]]["ty"]
            if ty in ("play", "walk") and res[i]["c"] == "ok":
                if ty == "walk":
                    self.walks += 1
                    if e["mode"] != "gated":
                        self.walk_submit += n > 1
                    else:
                        started, finished, met = set(), set(), False
                        for q, site, _ in e["steps"]:
                            if q == i + 1:          # a step of the walk (Lock() called / granted and done)
                                met = met or bool(started - finished - {q})
                            started.add(q)
                            if site == "done":
                                finished.add(q)
                        self.walk_submit += met
                    if any(req[m]["ty"] == "dotx" and req[m]["t"] in e["obs"]["pool"] for m in sc):
                        self.walk_readmit += 1
                else:
                    self.plays += 1
                # a contract invocation of the block that no request of the run submits (and that is not pending from
                # the prelude) has certainly been verified by the play / walk itself
                if e["obs"]["ptr"] == 2 and any(t not in pre and all(req[m]["t"] != t for m in sc) for t in contract):
                    self.contract_blocks += 1
                if e["obs"]["ptr"] == 2 and any(t not in pre and all(req[m]["t"] != t for m in sc) for t in acct):
                    self.account_blocks += 1
        for i in range(n):
            for j in range(i + 1, n):
                a, b = req[sc[i]], req[sc[j]]
                if a["ty"] == "dotx" and b["ty"] == "dotx" and sc[i] != sc[j]:
                    adm = (res[i]["c"] == "admit") + (res[j]["c"] == "admit")
                    if self.conflict(a["t"], b["t"]) and adm == 1:
                        self.conflict_one += 1
                    if self.sharers(a["t"], b["t"]) and adm == 2:
                        self.read_read += 1
                if a["ty"] == "sel" and b["ty"] == "sel" and a["lk"] and b["lk"] and a["a"] == b["a"]:
                    if "nomoney" in (res[i]["c"], res[j]["c"]) or a["need"] + b["need"] > 16:
                        self.sel_contended += 1
        if e["mode"] != "gated":
            self.free += 1
            return
        self.gated += 1
        if any(site == "wlock" and req[sc[p - 1]]["ty"] == "walk" for p, site, _ in e["steps"]):
            self.walk_waited += 1
        inside, seen = set(), False
        for p, site, _ in e["steps"]:
            if site == "dotx_locked":
                inside.add(p)
                seen = seen or len(inside) > 1
            elif site in ("unlock_key", "done"):
                inside.discard(p)
        self.overlap += seen
        # binding: the real goroutines parked where the schedule says; the step model's prediction holds
        exp = [s for s in e["sched"] if s[1] not in SEL_INTERNAL]
        act = e["steps"][:len(exp)]
        pred = e["pred"]
        why = None
        if e["bind"] >= 0:
            why = "schedule entry %d not followed: %s" % (e["bind"], e.get("why"))
        elif exp != act:
            why = "sites reached differ from the schedule"
        elif len(e["steps"]) == len(exp) and not self.order_sensitive(sc):      # complete schedule: compare the prediction
            for i in range(n):
                if req[sc[i]]["ty"] != "sel" and pred["res"][i] != res[i]["c"]:
                    why = "process %d: predicted %s, real %s" % (i + 1, pred["res"][i], res[i]["c"])
            po, o = pred["obs"], e["obs"]
            if not why and not (sorted(map(tuple, po["utxo"])) == sorted(map(tuple, o["utxo"])) and po["ver"] == o["ver"]
                                and sorted(po["pool"]) == sorted(o["pool"]) and po["total"] == o["total"] and po["ptr"] == o["ptr"]):
                why = "final observables differ from the prediction"
        if why:
            self.inexact.append({"sc": sc, "why": why, "tr": e["tr"], "beh": {"sc": sc, "sched": e["sched"], "pred": pred}})


def validate(run, stats, trace, tag, kf_known):
    """Judge one recorded trace with Trace_SpinLock; report the first unexplained run."""
    events = vp.read_ndjson(trace)
    for e in events:
        if e.get("op") == "run":
            stats.add(e)
    res = run.tlc_validate("Trace_SpinLock", "Trace_SpinLock.cfg", trace, name="val_" + tag,
                           consts={KF: tla_bool(kf_known)})
    run.cov["trace_events"] = run.cov.get("trace_events", 0) + res["len"]
    if res["hw"] == res["len"] + 1:
        run.cov["traces_validated_against_impl"] = run.cov.get("traces_validated_against_impl", 0) + res["len"]
        for k in res.get("dev") or []:
            run.known(KF_DESC if k == KF else k)
        return True
    at = res["div"].get("at", 0)
    e = events[at - 1] if 0 < at <= len(events) else {}
    run.cov["traces_validated_against_impl"] = run.cov.get("traces_validated_against_impl", 0) + max(0, at - 1)
    what = "%s run of %s: %s not explained by any one-at-a-time order (results %s, pool %s, versions %s)" % (
        e.get("mode"), e.get("sc"), res["div"].get("why"), [r.get("c") for r in e.get("res", [])],
        e.get("obs", {}).get("pool"), e.get("obs", {}).get("ver"))
    if str(res["div"].get("why", "")).startswith("balance"):
        what = ("%s run of %s (results %s, pool %s): the balances State.GetBalance answers for %s - before the requests %s, after "
                "them %s, after the one-at-a-time epilogue %s - are not those of the unspent outputs / of the admitted set (%s): "
                "a request that was refused or undone has left a trace" % (
                    e.get("mode"), e.get("sc"), [r.get("c") for r in e.get("res", [])], e.get("obs", {}).get("pool"),
                    stats.cat.get("addrs"), e.get("bal0"), e.get("obs", {}).get("bal"), e.get("obs2", {}).get("bal"), res["div"].get("why")))
    hung = [e["sc"][i] for i, r in enumerate(e.get("res", [])) if r.get("c") == "hang"]
    if hung:
        what = "%s run of %s: request(s) %s did not return within the driver's bound (deadlock; results %s)" % (
            e.get("mode"), e.get("sc"), hung, [r.get("c") for r in e.get("res", [])])
    if e.get("op") == "race":
        what = "data race on the lock table reported by the race detector: %s" % e.get("where")
    run.violation(what, {"property": PID, "mode": e.get("mode"), "behaviour": {"sc": e.get("sc"), "sched": e.get("steps"),
                         "pred": e.get("pred", {"res": [], "obs": {}})}, "why": res["div"].get("why"),
                         "results": e.get("res"), "obs": e.get("obs"), "epilogue": e.get("epi"), "obs2": e.get("obs2"),
                         "consts": run.consts})
    return False


def beh_dir_of(run, name, behs):
    d = run.sub(name)
    for f in os.listdir(d):
        os.remove(os.path.join(d, f))
    for i, b in enumerate(behs):
        with open(os.path.join(d, "b_%d.json" % i), "w") as f:
            json.dump([b], f)
    return d


def race_reports(run, stderr_dir):
    """Race detector reports of the -race stress runs: (reports on the lock table, other reports)."""
    lock, other = [], {}
    for f in glob.glob(os.path.join(stderr_dir, "race.*")):
        txt = open(f, errors="replace").read()
        for rep in txt.split("WARNING: DATA RACE")[1:]:
            frames = re.findall(r"\n\s+(\S+\.go:\d+)", rep)
            repo = [x for x in frames if "/harness/" not in x and "/usr/" not in x and "/go/src/" not in x]
            key = " <-> ".join(sorted(set(os.path.basename(x) for x in repo[:2]))) or "unknown"
            if re.search(r"utxo/spin_lock\.go|\(\*SpinLock\)|\(\*refCounter\)", rep):
                lock.append(key)
            else:
                other[key] = other.get(key, 0) + 1
    return lock, other


# ------------------------------------------------------------------------------------------------ the check
def check(run):
    try:
        check1(run)
    except CrashSeen:
        run.finish()


def check1(run):
    thorough = run.tier == "thorough"
    kf_known = KF in known_keys()
    run.build_harness("c12")

    # the catalogue (transactions, requests, lock keys) comes from the specification; facts about the tree under test
    # select the instantiation: order of the genesis lock keys, one-step or two-step shared lock
    d0 = gen_bfs(run, "Gen_SpinLock_cat.cfg", {}, "cat0")
    info, _ = drive(run, run.vh, ["info", "-catalog", os.path.join(d0, "catalog.json")], "info")
    if "gfirst" not in info:
        raise vp.Undecided("driver info failed")
    twostep = bool(info["twostep"])
    consts = {"GFirst": tla_bool(info["gfirst"]), KF: tla_bool(twostep)}
    run.consts = consts
    run.cov["code_variant"] = {"gfirst": info["gfirst"], "two_step_shared_lock": twostep, "kf_listed_known": kf_known}
    ideal = {"GFirst": consts["GFirst"], KF: "FALSE"}

    if run.replay:
        return replay_file(run, consts, kf_known)

    # (1) design verdict: IDEAL protocol. The model checks read nothing of /repo: they run beside the conformance
    # stages and are collected before the verdict (a failure is exit 2 whatever else was found)
    mcpool = concurrent.futures.ThreadPoolExecutor(max_workers=4)
    mcs = [mcpool.submit(mc, run, "MC_SpinLock_thorough.cfg" if thorough else "MC_SpinLock.cfg", ideal, 8 if not thorough else 12),
           mcpool.submit(mc, run, "MC_SpinLock_live.cfg", ideal, 4),
           mcpool.submit(mc_locktable, run)]
    if thorough:
        mcs.append(mcpool.submit(mc, run, "MC_SpinLock_4.cfg", ideal, 8))

    def collect_mc():
        for f in mcs:
            f.result()

    # (0) the lock table on its own: whole TryLock / Unlock calls on a real SpinLock
    ok = True if os.environ.get("VERIF_C12_NO_UNIT") else unit_level(run, thorough)      # (knob for self-tests of the other stages)

    stats = None
    # (3) conformance, exhaustive part: every schedule of two requests (normal forms)
    d2 = gen_bfs(run, "Gen_SpinLock.cfg", consts, "gen2")
    catalog = os.path.join(d2, "catalog.json")
    cat = json.load(open(catalog))[0]
    stats = Stats(cat)
    n2 = len(os.listdir(os.path.join(d2, "out")))
    if ok:
        for i, tr in enumerate(replay(run, catalog, os.path.join(d2, "out"), n2, "g2")):
            ok = validate(run, stats, tr, "g2_%d" % i, kf_known) and ok
    run.cov["schedules_two_requests_exhaustive"] = n2
    # ... and every schedule of selected scenarios of three requests (two sharers + a writer of a key, write skew,
    # same output three times, child + play, three selectors)
    if ok:
        d3x = gen_bfs(run, "Gen_SpinLock_3.cfg", consts, "gen3x")
        n3x = len(os.listdir(os.path.join(d3x, "out")))
        run.cov["schedules_three_requests_selected_exhaustive"] = n3x
        for i, tr in enumerate(replay(run, catalog, os.path.join(d3x, "out"), n3x, "g3x")):
            ok = validate(run, stats, tr, "g3x_%d" % i, kf_known) and ok

    # (2) the ACTUAL protocol is refuted by TLC; replay the counterexamples on the real goroutines (R4)
    if twostep and ok:
        behs = []
        for cfg in ("MC_SpinLock_kf.cfg", "MC_SpinLock_kf4.cfg"):
            st = mc_find(run, cfg, {"GFirst": consts["GFirst"]}, "find_" + cfg.replace(".cfg", ""))
            if st is None:
                raise vp.Undecided("TLC no longer refutes the two-step protocol (%s): specification and code disagree" % cfg)
            behs.append({"sc": st["sc"], "sched": st["hist"], "pred": {"res": [r["c"] for r in st["res"]], "obs": st["db"]}})
        bd = beh_dir_of(run, "cex", behs)
        trs = replay(run, catalog, bd, len(behs), "cex", shards=1)
        evs = vp.read_ndjson(trs[0])
        rep = []
        for e in evs:
            followed = e["bind"] < 0 and e["steps"][:len(e["sched"])] == e["sched"]
            rep.append({"sc": e["sc"], "schedule_followed_by_real_goroutines": followed,
                        "results": [r["c"] for r in e["res"]], "pool": e["obs"]["pool"]})
        run.cov["counterexamples_replayed"] = rep
        run.samples.append({"counterexample": behs[1]["sc"], "schedule": behs[1]["sched"], "real": rep[1]})
        ri = run.tlc_validate("Trace_SpinLock", "Trace_SpinLock.cfg", trs[0], name="val_cex_ideal", consts={KF: "FALSE"})
        reproduced = ri["hw"] != ri["len"] + 1          # the IDEAL instantiation rejects what the real code did
        run.cov["finding_10_reproduced_on_real_code"] = reproduced
        if not reproduced:
            vp.log("note: the specification's counterexample to the two-step shared lock was NOT reproduced on the real "
                   "code (design warning only, R4)")
        okc = validate(run, stats, trs[0], "cex", kf_known)
        ok = ok and okc

    # (3) conformance, sampled part: schedules of 3-4 requests by simulation
    if ok:
        nsim = 20000 if thorough else 1500
        run.tlc_gen("Gen_SpinLock", "Gen_SpinLock_sim.cfg", nsim, 140, name="gen3", consts=consts,
                    timeout=900)
        d3 = os.path.join(run.work, "gen3", "out")
        n3 = len(os.listdir(d3))
        run.cov["schedules_three_four_requests_simulated"] = n3
        for i, tr in enumerate(replay(run, catalog, d3, n3, "g3")):
            ok = validate(run, stats, tr, "g3_%d" % i, kf_known) and ok

    # (4) free-running stress
    if ok:
        jobs = []
        nshards = 4 if thorough else 2
        per = 1500 if thorough else 300
        for s in range(nshards):
            out = os.path.join(run.work, "free_%d.ndjson" % s)
            jobs.append((out, ["stress", "-catalog", catalog, "-out", out, "-runs", per, "-procs", 4 + s % 3, "-shard", s]))
        with concurrent.futures.ThreadPoolExecutor(max_workers=len(jobs)) as ex:
            futs = [(out, ex.submit(drive, run, run.vh, args, "free%d" % i)) for i, (out, args) in enumerate(jobs)]
            outs = [(out, f.result()) for out, f in futs]
        for i, (out, _) in enumerate(outs):
            ok = validate(run, stats, out, "free_%d" % i, kf_known) and ok
    if ok and thorough:
        rb = build_race(run)
        if rb is None:
            run.cov["race_sensor"] = "skipped (no race runtime)"
        else:
            rdir = run.sub("race")
            out = os.path.join(run.work, "race.ndjson")
            drive(run, rb, ["stress", "-catalog", catalog, "-out", out, "-runs", 600, "-procs", 6, "-shard", 9], "race",
                  extra_env={"GORACE": "log_path=%s halt_on_error=0 exitcode=0" % os.path.join(rdir, "race")})
            lock, other = race_reports(run, rdir)
            run.cov["race_sensor"] = {"reports_on_lock_table": len(lock), "other_reports_diagnostic": other}
            if lock:
                with open(out, "a") as f:
                    f.write(json.dumps({"op": "race", "tr": -1, "i": 0, "where": lock[0]}) + "\n")
            ok = validate(run, stats, out, "race", kf_known) and ok

    # binding self-test (anti-vacuity): a corrupted record must be rejected
    if ok:
        selftest(run, kf_known)

    collect_mc()
    run.cov["real_result_classes"] = stats.classes
    run.cov["runs_gated"] = stats.gated
    run.cov["runs_free"] = stats.free
    run.cov["runs_not_described_by_step_model"] = len(stats.inexact)
    run.cov["mixed_transactions"] = {"pairs": stats.mixed_pairs, "pairs_by_conflict": stats.mixed_pairs_by_kind,
                                     "refused_at_key_stage_inputs_unspent_gated": stats.mixed_key_stage,
                                     "of_which_verified_before_the_winners_write": stats.mixed_window,
                                     "refused_stale_inputs_unspent_free_running": stats.mixed_free_refused,
                                     "balances_compared": stats.bal_compared, "balances_changed_and_compared": stats.bal_changed}
    run.assumptions += [
        "selections have no yield point in /repo: in gated runs a SelectUtxos call is one step (free-running runs interleave it)",
        "a refusal for a busy try-lock (ErrDoubleSpent) is accepted whenever another request of the run asks for a conflicting key (R6)",
        "two concurrent submissions of one transaction that only reads (no exclusive key) may both be answered 'admitted' (R6)",
        "an undo releases the selection locks of the outputs the undone transaction spent (UnlockKey in undoTxInternal)",
        "a walk is its exclusive part followed by one re-submission per rolled-back transaction (the code hands them to a goroutine "
        "of its own): each takes place somewhere after the walk, in no particular order among independent ones, and may drop "
        "the transaction if it is no longer valid there or (R6) its lock keys are contended; the state between roll-back and "
        "block may be seen by a verification outside the locks",
        "gated runs: the recovery goroutine of a walk is not gated, it runs to its end within the walk's step (every other "
        "request is parked outside the locks); scenarios with two exclusive requests are model checked and run free, not gated",
        "a request counts as hanging after %d s without returning (driver constant arriveTimeout)" % 20,
    ]
    if not run.violations and run.cov.get("replay_stopped_after_hanging_requests"):
        raise vp.Undecided("a replay was cut short after hanging requests but no run was rejected")
    if not run.violations and run.cov.get("lock_keys_differ_from_specification"):
        raise vp.Undecided("ExtractLockKeys no longer yields the specification's lock keys (%s): binding lost, no verdict"
                           % run.cov["lock_keys_differ_from_specification"])
    if not run.violations and stats.inexact:
        # scheduling noise or a real divergence? a schedule the code does not follow deterministically fails again
        first = stats.inexact
        vp.log("re-running %d schedules that were not followed: %s" % (len(first), json.dumps([x["why"] for x in first[:3]])))
        again = Stats(cat)
        bd = beh_dir_of(run, "again", [x["beh"] for x in first])
        for i, tr in enumerate(replay(run, catalog, bd, len(first), "again", shards=1)):
            validate(run, again, tr, "again_%d" % i, kf_known)
        run.cov["schedules_rerun_after_noise"] = len(first) - len(again.inexact)
        stats.inexact = again.inexact
        run.cov["runs_not_described_by_step_model"] = len(stats.inexact)
    if not run.violations and stats.inexact:
        vp.log("runs the step model does not describe: %s" % json.dumps([{k: v for k, v in x.items() if k != "beh"} for x in stats.inexact[:3]]))
        raise vp.Undecided("%d gated runs did not follow the schedule / the step model's prediction: the step model of "
                           "spec/SpinLock.tla no longer describes the code (binding lost), no verdict" % len(stats.inexact))
    run.finish(require={
        "lock_table_calls_validated": (run.cov.get("lock_table_unit", {}).get("calls", 0), 5000),
        "lock_table_trylock_refused_holding_a_prefix": (run.cov.get("lock_table_unit", {}).get("trylock_failed_holding_a_prefix", 0), 200),
        "walks_returned": (stats.walks, 300),
        "walks_while_another_request_is_in_flight": (stats.walk_submit, 250),
        "walks_that_waited_for_readers": (stats.walk_waited, 40),
        "walks_after_which_a_rolled_back_request_is_pending_again": (stats.walk_readmit, 40),
        "blocks_with_a_contract_invocation_verified_under_the_exclusive_lock": (stats.contract_blocks, 150),
        "blocks_with_an_account_owned_spend_verified_under_the_exclusive_lock": (stats.account_blocks, 150),
        "schedules_replayed": (stats.gated, 3000 if not thorough else 15000),
        "schedules_with_overlapping_critical_windows": (stats.overlap, 50),
        "conflicting_pairs_exactly_one_admitted": (stats.conflict_one, 50),
        "read_read_pairs_both_admitted": (stats.read_read, 20),
        "selections_contended": (stats.sel_contended, 10),
        "refusals_for_a_busy_lock": (stats.busy, 20),
        "free_running_runs": (stats.free, 500),
        "mixed_pairs_executed": (stats.mixed_pairs, 300),
        "mixed_pairs_in_conflict_on_the_key_only": (stats.mixed_pairs_by_kind["key"], 100),
        "mixed_pairs_in_conflict_on_the_output_only": (stats.mixed_pairs_by_kind["output"], 20),
        "mixed_pairs_in_conflict_on_both": (stats.mixed_pairs_by_kind["both"], 12),
        "mixed_submissions_refused_at_the_key_stage_with_unspent_inputs": (stats.mixed_key_stage, 40),
        "mixed_submissions_verified_before_and_refused_after_the_winners_write": (stats.mixed_window, 40),
        "balances_compared_with_utxo_table_and_admitted_set": (stats.bal_compared, 50000),
        "balances_changed_by_the_run_and_compared": (stats.bal_changed, 3000),
    })


def selftest(run, kf_known):
    src = os.path.join(run.work, "g2_0.ndjson")
    for e in vp.read_ndjson(src):
        adm = [i for i, r in enumerate(e["res"]) if r["c"] == "admit"]
        if adm and len(e["obs"]["pool"]) > 1:
            bad1 = json.loads(json.dumps(e))
            bad1["res"][adm[0]]["c"] = "stale"
            bad2 = json.loads(json.dumps(e))
            bad2["obs"]["pool"] = bad2["obs"]["pool"][:-1]
            for k, b in enumerate((bad1, bad2)):
                p = os.path.join(run.work, "self_%d.ndjson" % k)
                vp.write_ndjson(p, [b])
                r = run.tlc_validate("Trace_SpinLock", "Trace_SpinLock.cfg", p, name="self_%d" % k, consts={KF: tla_bool(kf_known)})
                if r["hw"] == r["len"] + 1:
                    raise vp.Undecided("binding self-test: a corrupted record was accepted by Trace_SpinLock")
            run.cov["binding_selftest"] = "corrupted result class and corrupted pool rejected"
            return
    raise vp.Undecided("binding self-test: no suitable record")


def replay_file(run, consts, kf_known):
    """--replay FILE: re-execute the recorded schedule on the current tree and judge it again."""
    rp = json.load(open(run.replay))
    if rp.get("mode") == "crash":
        # a crash of the free-running driver: the same request mix again (the schedule itself is not recorded)
        d = gen_bfs(run, "Gen_SpinLock_cat.cfg", consts, "catr")
        args = list(rp["driver_args"])
        args[args.index("-catalog") + 1] = os.path.join(d, "catalog.json")
        args[args.index("-out") + 1] = os.path.join(run.work, "rp_free.ndjson")
        for i in range(3):
            drive(run, run.vh, args, "rpfree%d" % i, timeout=1800)
        run.cov["replayed_file"] = os.path.basename(run.replay)
        run.finish()
    if rp.get("mode") == "unit":
        # a call sequence on the lock table
        d = run.sub("rpunit")
        calls = [{k: c.get(k) for k in ("op", "c", "rd", "wr")} for c in rp["calls"] if c.get("op") != "reset"]
        with open(os.path.join(d, "b_0.json"), "w") as f:
            json.dump(calls, f)
        trace = os.path.join(run.work, "rpunit.ndjson")
        drive(run, run.vh, ["unit", "-in", d, "-out", trace], "rpunit", timeout=300)
        res = run.tlc_validate("Trace_LockTable", "Trace_LockTable.cfg", trace, name="val_rpunit")
        if res["hw"] != res["len"] + 1:
            run.violation("utxo.SpinLock: the recorded call sequence is still not explained by spec/LockTable.tla: %s" % json.dumps(res["div"]), rp)
        run.finish()
    d = gen_bfs(run, "Gen_SpinLock_cat.cfg", consts, "catr")
    catalog = os.path.join(d, "catalog.json")
    cat = json.load(open(catalog))[0]
    stats = Stats(cat)
    bd = beh_dir_of(run, "rp", [rp["behaviour"]])
    trs = replay(run, catalog, bd, 1, "rp", shards=1)
    validate(run, stats, trs[0], "rp", kf_known)
    run.finish()
