"""C20 - p2p messages decode to what was sent, corruption is detected, dispatch is exact.

Specification spec/P2P.tla (codec part + dispatcher part), bound to kernel/network/p2p by

(1) TLC model checks: the codec cases (every type x option set x sender x transport x payload class x
    corruption kind) against RoundTrip / CorruptionDetected, and every interleaving of 2-3 goroutines doing
    Register / UnRegister / Dispatch at lock / table-access / Match / handler granularity against
    MutualExclusion, NoTableAccessWithoutLock, ExactDelivery, RepeatDropped;
(2) codec conformance: TLC's case list is instantiated by harness/cmd/c20 on the real NewMessage / Unmarshal /
    VerifyChecksum (every single-bit flip and every burst <= 32 bits of a small encoded payload, seeded ones
    for big payloads) and GetRespMessageType; the recorded results are validated by Trace_P2P.tla;
(3) dispatcher conformance: TLC-generated sequential programs, and TLC-generated 2-3 goroutine behaviours run
    (a) steered through the Subscriber callbacks as gates and (b) freely with seeded yields, on the real
    dispatcher with recording subscribers; the API-visible events (call start, handler call, call end) are
    validated by Trace_P2P.tla, which chooses the linearisation points (a trace is a violation only if NO
    interleaving of the invisible steps explains it);
(4) sensor: the concurrent driver built with -race; a reported access pair on the subscriber table becomes a
    trace event that only a known deviation of the specification can explain.
"""
import json, os, re, subprocess, time
import vp
import tracecheck

KF_DESC = {
    "KF_DispatchReadsTableUnlocked":
        "deviation=KF_DispatchReadsTableUnlocked :: Dispatch looks the message type up in the subscriber table "
        "(dispatcher.go:128) before taking mu.RLock; the race detector reports this read against the outer-map "
        "write of a concurrent first Register of a type (dispatcher.go:75), and the Go runtime occasionally aborts "
        "the process there with 'fatal error: concurrent map read and map write'",
    "KF_EmptyPayloadUndecodable":
        "deviation=KF_EmptyPayloadUndecodable :: a message whose payload encodes to zero bytes (empty proto "
        "message) cannot be decoded once it crossed the wire: Data.MsgInfo arrives as nil and Decompress answers "
        "'param error' (Unmarshal -> ErrMessageDecompress), for every type / option combination",
    "KF_KeyConcatAmbiguous":
        "deviation=KF_KeyConcatAmbiguous :: MessageKey concatenates type, bcname, from, logid, checksum without "
        "separators: after a message with (bcname, from) = (A, B+C) was handled, a different message with "
        "(A+B, C) and the same logid / payload is dropped as a repeat",
}
FINDINGS_KNOWN = os.path.join(vp.VERIF, "findings", "C20.known")


def known_keys():
    """Deviations listed as known: KNOWN_FINDINGS.txt plus findings/C20.known (same line format)."""
    keys = dict(vp.known_keys("C20"))
    if os.path.exists(FINDINGS_KNOWN):
        for line in open(FINDINGS_KNOWN):
            m = re.match(r"\s*known:\s+property=C20\s+(.*?)\s*::\s*(.*)$", line.strip())
            if m:
                km = re.search(r"key=(\S+)", m.group(1))
                if km:
                    keys.setdefault(km.group(1), m.group(2))
        for line in open(FINDINGS_KNOWN):     # a fixed: line anywhere wins over a stale known: line
            m = re.match(r"\s*fixed:\s+property=C20\s+(.*?)\s*::", line.strip())
            km = m and re.search(r"key=(\S+)", m.group(1))
            if km:
                keys.pop(km.group(1), None)
    for k in [f["key"] for f in vp.known_findings("C20") if f["status"] == "fixed"]:
        keys.pop(k, None)
    return keys


# ------------------------------------------------------------------------------------------------ harness
def build(run, race=False):
    """Own build step (run.build_harness has no -race switch); same module / replace rules."""
    if not race:
        return run.build_harness("c20")
    out = os.path.join(run.work, "c20race")
    args = ["go", "build", "-race", "-tags", "verif", "-o", out]
    if os.path.realpath(vp.REPO) != "/repo":
        args += ["-modfile", os.path.join(run.work, "alt.go.mod")]      # written by run.build_harness
    t = time.time()
    p = subprocess.run(args + ["./cmd/c20"], cwd=vp.HARNESS, env=vp.GOENV, stdout=subprocess.PIPE,
                       stderr=subprocess.STDOUT, text=True)
    run.cov["race_build_s"] = round(time.time() - t, 1)
    if p.returncode != 0:
        vp.log(p.stdout[-3000:])
        return None          # no race runtime / no cgo here: the sensor is skipped, never a verdict
    return out


def drive(run, binary, args, extra_env=None, timeout=900):
    """Run a c20 sub-command; returns (stats, stderr, returncode). A crash is reported to the caller."""
    env = dict(vp.GOENV, VERIF_SEED=str(run.seed), VERIF_TIER=run.tier, VERIF_WORK=run.sub("go"), GOTRACEBACK="all")
    env.update(extra_env or {})
    try:
        p = subprocess.run([binary] + [str(a) for a in args], cwd=run.work, env=env, stdout=subprocess.PIPE,
                           stderr=subprocess.PIPE, text=True, timeout=timeout)
    except subprocess.TimeoutExpired:
        raise vp.Undecided("c20 driver timed out: %s" % " ".join(map(str, args)))
    st = {}
    try:
        st = json.loads(p.stdout.strip().splitlines()[-1])
    except Exception:
        pass
    return st, p.stderr, p.returncode


def must(run, binary, args, **kw):
    st, err, rc = drive(run, binary, args, **kw)
    if rc != 0:
        vp.log(err[-4000:])
        raise vp.Undecided("c20 driver failed (exit %d): %s" % (rc, " ".join(map(str, args))))
    return st


# ------------------------------------------------------------------------------------------------ validation
def validate(run, segments, name, known):
    """Validate ndjson traces in one TLC run: IDEAL first, then ACTUAL with the known deviations.
    segments: list of (kind, trace file, behaviours or None); trace ids are renumbered globally.
    Returns True if explained."""
    trace = os.path.join(run.work, name + "_all.ndjson")
    where = {}          # global trace id -> (kind, local trace id, behaviours)
    nxt = 0
    with open(trace, "w") as out:
        for kind, f, behs in segments:
            loc = {}
            for e in vp.read_ndjson(f):
                t = e.get("tr", -1)
                if (kind, t) not in loc:
                    loc[(kind, t)] = nxt
                    where[nxt] = (kind, e.get("b", t), behs)      # reset lines of concurrent rounds name the behaviour
                    nxt += 1
                e["tr"] = loc[(kind, t)]
                out.write(json.dumps(e, sort_keys=True, separators=(",", ":")) + "\n")
    res = run.tlc_validate("Trace_P2P.tla", "Trace_P2P.cfg", trace, name=name + "_val")
    run.cov["trace_events"] = run.cov.get("trace_events", 0) + res["len"]
    run.cov["validation_states"] = run.cov.get("validation_states", 0) + res.get("tlc_states", 0)
    if res["hw"] == res["len"] + 1:
        os.remove(trace)
        return True
    if known:
        consts = {k: "TRUE" for k in known if k in KF_DESC}
        res2 = run.tlc_validate("Trace_P2P.tla", "Trace_P2P.cfg", trace, name=name + "_valkf", consts=consts)
        run.cov["validation_states"] = run.cov.get("validation_states", 0) + res2.get("tlc_states", 0)
        if res2["hw"] == res2["len"] + 1:
            for k in res2.get("dev") or []:
                run.known(KF_DESC.get(k, k))
            os.remove(trace)
            return True
        res = res2
    events = vp.read_ndjson(trace)
    div = res.get("div") or {}
    at = div.get("at", 0) or res["hw"]          # deterministic lines carry a divergence, events the high-water mark
    ev = events[at - 1] if 0 < at <= len(events) else {}
    tr = ev.get("tr")
    kind, ltr, behs = where.get(tr, ("?", tr, None))
    prog = [e for e in events if e.get("tr") == tr and e.get("op") in ("inv", "dlv", "ret", "race")]
    if ev.get("op") in ("codec", "resp"):
        what = "%s case %s: expected %s, actual %s" % (ev.get("op"), json.dumps(ev.get("m", ev.get("name"))),
                                                        json.dumps(div.get("exp")), json.dumps(
            {k: ev.get(k) for k in ("k", "dec", "err", "vc", "hdr", "tried", "delivered", "vcpass", "first", "resp")
             if k in ev}))
    elif ev.get("op") == "race":
        what = "unsynchronised access to the subscriber table (%s map): %s in %s (%s), write in %s, %s (%s)" % (
            ev.get("tbl"), "write" if ev.get("ww") else "read", ev.get("rd"), ev.get("site"), ev.get("wr"),
            " / ".join(ev.get("lines", [])), ev.get("fatal", "race detector report"))
    else:
        what = ("%s trace %s: no interleaving of the specification explains event %s %s (events of the round: %d)"
                % (kind, ltr, ev.get("i"), json.dumps({k: v for k, v in ev.items() if k not in ("tr", "i")}), len(prog)))
    beh = behs[ltr] if isinstance(behs, list) and isinstance(ltr, int) and 0 <= ltr < len(behs) else None
    run.violation(what, {"property": "C20", "kind": kind, "seed": run.seed, "first_unexplained_event": ev,
                         "expected": div.get("exp"), "events": prog[:400], "behaviour": beh,
                         "trace_module": "Trace_P2P.tla"})
    os.remove(trace)
    return False


def binding_selftest(run, trace):
    """Anti-vacuity (DESIGN section 6): a recorded trace with one delivery removed, and one with a delivery
    attributed to another subscriber object, must both be rejected by the trace specification."""
    evs = vp.read_ndjson(trace)
    progs = sorted({e["tr"] for e in evs if e.get("op") == "dlv"})[:12]
    evs = [e for e in evs if e.get("tr") in progs]
    idx = [i for i, e in enumerate(evs) if e.get("op") == "dlv"]
    if not idx:
        raise vp.Undecided("binding self-test: no delivery recorded")
    k = idx[len(idx) // 2]
    removed = evs[:k] + evs[k + 1:]
    swapped = [dict(e) for e in evs]
    swapped[k]["s"] = dict(swapped[k]["s"], k=3 - swapped[k]["s"]["k"])
    for name, t in (("removed", removed), ("swapped", swapped)):
        f = os.path.join(run.work, "selftest_%s.ndjson" % name)
        vp.write_ndjson(f, t)
        res = run.tlc_validate("Trace_P2P.tla", "Trace_P2P.cfg", f, name="selftest_val",
                               consts={k: "TRUE" for k in KF_DESC})
        os.remove(f)
        if res["hw"] == res["len"] + 1:
            raise vp.Undecided("binding self-test: a trace with a %s delivery was accepted by Trace_P2P" % name)
    run.cov["binding_selftest"] = "tampered traces (delivery removed / attributed to another subscriber) rejected"


# ------------------------------------------------------------------------------------------------ race sensor
def table_of(path, line):
    """Which map of the subscriber table a source line of dispatcher.go touches: the inner map (set of
    subscribers of one type: d.mc[t][sub], range d.mc[t], delete(d.mc[t], sub)) or only the outer one."""
    try:
        txt = open(path).read().splitlines()[line - 1]
    except Exception:
        raise vp.Undecided("cannot read %s:%s named by a race report" % (path, line))
    if "d.mc" not in txt:
        return "other"
    if re.search(r"d\.mc\[[^\]]*\]\s*\[", txt) or "range d.mc[" in txt or "delete(d.mc[" in txt:
        return "inner"
    return "outer"


def dispatch_site(path, line):
    """Is a source line of Dispatch before ("prelock") or after ("locked") the point where mu.RLock() is taken?"""
    try:
        src = open(path).read().splitlines()
    except Exception:
        raise vp.Undecided("cannot read %s named by a race report" % path)
    start = next((i for i, l in enumerate(src) if re.match(r"func \(d \*dispatcher\) Dispatch\(", l)), None)
    if start is None:
        return "na"
    rl = next((i for i in range(start, len(src)) if "d.mu.RLock()" in src[i]), None)
    return "prelock" if rl is None or line - 1 < rl else "locked"


def parse_race_reports(text):
    """Go race detector reports -> list of {rd, wr, tbl, ww, lines} for access pairs inside p2p.(*dispatcher);
    everything else is returned as diagnostics."""
    pairs, other = [], []
    for block in text.split("WARNING: DATA RACE")[1:]:
        block = block.split("==================")[0]
        stanzas = re.findall(r"^((?:Previous )?(?:[Rr]ead|[Ww]rite)) at .*?\n((?:  .*\n|      .*\n)+)", block, re.M)
        acc = []
        for kind, body in stanzas[:2]:
            fn = re.search(r"p2p\.\(\*dispatcher\)\.(\w+)[^\n]*\n\s+(\S+dispatcher\.go):(\d+)", body)
            if fn:
                acc.append(("write" if "rite" in kind else "read", fn.group(1),
                            "dispatcher.go:" + fn.group(3), table_of(fn.group(2), int(fn.group(3))),
                            dispatch_site(fn.group(2), int(fn.group(3))) if fn.group(1) == "Dispatch" else "na"))
        if len(acc) == 2:
            tbl = acc[0][3] if acc[0][3] == acc[1][3] else "mixed"
            rd = [a for a in acc if a[0] == "read"]
            wr = [a for a in acc if a[0] == "write"]
            if rd and wr:
                pairs.append({"rd": rd[0][1], "site": rd[0][4], "wr": wr[0][1], "tbl": tbl, "ww": False,
                              "lines": [rd[0][2], wr[0][2]]})
            else:
                pairs.append({"rd": acc[0][1], "site": acc[0][4], "wr": acc[1][1], "tbl": tbl, "ww": True,
                              "lines": [acc[0][2], acc[1][2]]})
        else:
            other.append(block.strip()[:600])
    return pairs, other


def parse_map_fatal(stderr):
    """runtime 'fatal error: concurrent map ...': the goroutine that hit the check (the first one of the dump; for
    'read and map write' it is the reader). Where the other goroutines are shown is where they had got to when the
    dump was taken, not where they were at the time of the clash, so the writer stays "unknown"."""
    m = re.search(r"fatal error: (concurrent map [a-z ]+)", stderr)
    if not m:
        return None
    gs = stderr[m.end():].split("\ngoroutine ")
    first = gs[1] if len(gs) > 1 else ""
    fr = re.search(r"p2p\.\(\*dispatcher\)\.(\w+)[^\n]*\n\s+(\S+dispatcher\.go):(\d+)", first)
    if not fr:
        return {"rd": "unknown", "site": "na", "wr": "unknown", "tbl": "unknown", "ww": False, "fatal": m.group(1), "lines": []}
    fn, path, line = fr.group(1), fr.group(2), int(fr.group(3))
    others = sorted({f for g in gs[2:] for f in re.findall(r"p2p\.\(\*dispatcher\)\.(\w+)", g)})
    return {"rd": fn, "site": dispatch_site(path, line) if fn == "Dispatch" else "na", "wr": "unknown",
            "tbl": table_of(path, line), "ww": "writes" in m.group(1), "fatal": m.group(1),
            "lines": ["dispatcher.go:%d" % line], "other_goroutines_in": others}


# ------------------------------------------------------------------------------------------------ the check
def gen(run, name, num, depth, np_, calls, u, seed_off):
    return run.tlc_gen("Gen_P2P.tla", "Gen_P2P.cfg", num, depth, name=name, seed=run.seed * 97 + seed_off,
                       consts={"NP": np_, "MaxCalls": calls, "U": '"%s"' % u})


def conc_round(run, binary, behs, mode, reps, name, race_log=None):
    """Run behaviours concurrently on the real dispatcher. Returns (stats, trace file, sensor trace file or None)."""
    d = tracecheck.dump_behaviours(run, behs, name + "_in")
    trace = os.path.join(run.work, name + ".ndjson")
    env = {}
    if race_log:
        env["GORACE"] = "log_path=%s halt_on_error=0 exitcode=0" % race_log
    extra, st, err, start = [], {}, "", 0
    open(trace, "w").close()
    for attempt in range(6):
        part = os.path.join(run.work, name + "_part.ndjson")
        st1, err1, rc = drive(run, binary, ["disp-conc", "-in", d, "-out", part, "-mode", mode, "-reps", reps,
                                             "-from", start], extra_env=env)
        err += err1
        evs = vp.read_ndjson(part) if os.path.exists(part) else []
        with open(trace, "a") as f:
            for e in evs:
                f.write(json.dumps(e, sort_keys=True, separators=(",", ":")) + "\n")
        if rc == 0:
            for k, v in st1.items():
                st[k] = st.get(k, 0) + v
            break
        fatal = parse_map_fatal(err1)
        if not fatal or attempt == 5:
            vp.log(err1[-4000:])
            raise vp.Undecided("c20 disp-conc failed (exit %d)" % rc)
        # the Go runtime aborted the process ("concurrent map ..."): the finished rounds are on disk, the abort is
        # a sensor event, the run continues behind the behaviour that was being executed
        extra.append(dict(fatal, op="race", tr=-1, i=len(extra)))
        run.cov.setdefault("runtime_map_fatal", []).append(fatal)
        resets = [e for e in evs if e["op"] == "reset"]
        st["rounds"] = st.get("rounds", 0) + len(resets)
        st["deliveries"] = st.get("deliveries", 0) + sum(1 for e in evs if e["op"] == "dlv")
        st["calls"] = st.get("calls", 0) + sum(1 for e in evs if e["op"] == "inv")
        open_calls = set()
        for e in evs:
            if e["op"] == "reset":
                open_calls = set()
            elif e["op"] == "inv":
                st["overlapping_calls"] = st.get("overlapping_calls", 0) + (1 if open_calls else 0)
                open_calls.add(e["g"])
            elif e["op"] == "ret":
                open_calls.discard(e["g"])
        start = (resets[-1]["b"] + 1) if resets else start + 1     # behind the last finished behaviour
        if start >= len(behs):
            break
    if race_log:
        text = ""
        for f in sorted(os.listdir(os.path.dirname(race_log))):
            if f.startswith(os.path.basename(race_log)):
                text += open(os.path.join(os.path.dirname(race_log), f)).read()
                os.remove(os.path.join(os.path.dirname(race_log), f))
        pairs, other = parse_race_reports(text + err)
        seen = set()
        for p in pairs:
            key = (p["rd"], p["site"], p["wr"], p["tbl"], p["ww"])
            if key not in seen:
                seen.add(key)
                extra.append(dict(p, op="race", tr=-1, i=len(extra)))
        run.cov.setdefault("race_reports", []).extend(
            [{"read_in": p["rd"], "write_in": p["wr"], "table": p["tbl"], "lines": p["lines"]} for p in pairs][:6])
        if other:
            run.cov.setdefault("race_reports_elsewhere", []).extend(other[:3])
    sensor = None
    if extra:
        sensor = os.path.join(run.work, name + "_sensor.ndjson")
        vp.write_ndjson(sensor, extra)
    return st, trace, sensor


def check(run):
    quick = run.tier == "quick"
    known = known_keys()
    if getattr(run, "replay", None):
        return replay(run, known)
    binary = build(run)
    tot = {}
    phases = run.cov.setdefault("phase_wall_s", {})
    clock = [time.time()]

    def lap(name):
        phases[name] = round(time.time() - clock[0], 1)
        clock[0] = time.time()

    def add(st):
        for k, v in st.items():
            if isinstance(v, (int, float)):
                tot[k] = tot.get(k, 0) + v

    # (1) exhaustive model checks of the IDEAL specification ------------------------------------------
    run.tlc_mc("Gen_P2P.tla", "MC_P2P_codec.cfg", name="mc_codec", timeout=600)
    cases = os.path.join(run.work, "mc_codec", "codec_cases.json")
    if not os.path.exists(cases):
        raise vp.Undecided("TLC did not write the codec case list")
    if not os.environ.get("C20_DEV_SKIP_MC"):        # development aid for mutation self-tests only
        run.tlc_mc("P2P.tla", "MC_P2P.cfg", timeout=900)
        run.tlc_mc("P2P.tla", "MC_P2P_np3.cfg", timeout=900)
        if not quick:
            run.tlc_mc("P2P.tla", "MC_P2P_thorough.cfg", timeout=2400)
    # design-level reproduction of the deviation: ACTUAL(KF_DispatchReadsTableUnlocked) must violate the invariant
    d = run._tlc_dir("mc_kf", ["MC_P2P_kf.cfg"])
    rc, out, dt = run._tlc(d, ["-workers", "4", "-config", "MC_P2P_kf.cfg", "P2P.tla"], 300)
    run.cov["kf_model_violates_NoTableAccessWithoutLock"] = "Invariant NoTableAccessWithoutLock is violated" in out

    lap("model_checking")
    # (2) codec and response-type map ------------------------------------------------------------------
    ctrace = os.path.join(run.work, "codec.ndjson")
    rtrace = os.path.join(run.work, "resp.ndjson")
    cargs = ["codec", "-in", cases, "-out", ctrace] + (
        ["-large", 65536, "-seeded", 48, "-patterns", 1] if quick else ["-large", 262144, "-seeded", 200, "-patterns", 4])
    add(must(run, binary, cargs, timeout=1500))
    add(must(run, binary, ["resp", "-out", rtrace]))
    ok = validate(run, [("codec", rtrace, None), ("codec", ctrace, None)], "codec", known)
    os.remove(ctrace)
    lap("codec")

    # (3) dispatcher, sequential programs (TLC-generated), replayed on the real dispatcher ---------------
    n = 1 if quick else 5
    seqb = gen(run, "gen_a", 150 * n, 900, 1, 16, "gen", 1) + gen(run, "gen_b", 100 * n, 900, 1, 16, "gen2", 2)
    colb = gen(run, "gen_c", 40 * n, 600, 1, 8, "col", 3)      # universe with two splits of one bcname+from string
    straces = []
    for nm, behs in (("seq", seqb), ("col", colb)):
        d = tracecheck.dump_behaviours(run, behs, nm + "_in")
        t = os.path.join(run.work, nm + ".ndjson")
        add(must(run, binary, ["disp-seq", "-in", d, "-out", t]))
        straces.append(("sequential", t, behs))
    run.samples = [[e for e in seqb[0] if e.get("a") in ("call", "dlv", "ret")][:30]]
    rets = [e for b in seqb + colb for e in b if e.get("a") == "ret"]
    model = {
        "model_dropped_repeats": sum(1 for e in rets if e["op"] == "disp" and e["res"] == "dropped"),
        "model_multi_deliveries": sum(1 for e in rets if e["op"] == "disp" and len(e["dl"]) >= 2),
    }
    # measured on the real run: a Dispatch that delivered nothing although the same message had been delivered
    # earlier in the same program (a dropped repeat), and dispatches that reached >= 2 subscribers
    real_dropped = real_multi = 0
    for _, t, _ in straces:
        delivered, cur_m, cur_n = set(), None, 0
        for e in vp.read_ndjson(t):
            if e["op"] == "reset":
                delivered, cur_m = set(), None
            elif e["op"] == "inv" and e["call"] == "disp":
                cur_m, cur_n = json.dumps(e["m"], sort_keys=True), 0
            elif e["op"] == "dlv":
                cur_n += 1
            elif e["op"] == "ret" and cur_m is not None:
                if cur_n == 0 and cur_m in delivered:
                    real_dropped += 1
                if cur_n >= 1:
                    delivered.add(cur_m)
                if cur_n >= 2:
                    real_multi += 1
                cur_m = None
    lap("sequential_replay")

    # (4) dispatcher, 2-3 goroutines: steered through the callbacks, then free with seeded yields --------
    nc = 1 if quick else 3
    cb = gen(run, "gen_p2", 60 * nc, 900, 2, 4, "small", 4) + gen(run, "gen_p3", 60 * nc, 900, 3, 3, "small", 5) + \
        gen(run, "gen_p3b", 30 * nc, 900, 3, 2, "mc3", 6)
    st, gtrace, gs = conc_round(run, binary, cb, "gated", 1, "gated")
    tot["gated_rounds"] = st.get("rounds", 0)
    tot["gated_overlapping_calls"] = st.get("overlapping_calls", 0)
    tot["gated_lagging_steps"] = st.get("lagging_steps", 0)
    tot["gated_sched_steps"] = st.get("sched_steps", 0)
    tot["conc_deliveries"] = st.get("deliveries", 0)
    st, ftrace, fsens = conc_round(run, binary, cb, "free", 1 if quick else 2, "free")
    tot["free_rounds"] = st.get("rounds", 0)
    tot["free_overlapping_calls"] = st.get("overlapping_calls", 0)
    tot["conc_deliveries"] += st.get("deliveries", 0)
    lap("concurrent_replay")
    # the traces IDEAL is expected to explain go first, in one TLC run; the universe with the colliding keys
    # and the sensor events (explained by known deviations only) in a second one
    if ok:
        binding_selftest(run, straces[0][1])
        ok = validate(run, [straces[0], ("gated concurrent", gtrace, cb), ("free concurrent", ftrace, cb)],
                      "disp", known)
    lap("dispatcher_validation")

    # (5) sensor: the same concurrent driver under the race detector ------------------------------------
    race_events = 0
    segs = [("sensor", f, None) for f in (gs, fsens) if f] + [straces[1]]
    if ok:
        rb = build(run, race=True)
        if rb is None:
            run.assumptions.append("race detector not available in this environment: sensor skipped")
        else:
            sub = cb[:150] if quick else cb[:240]
            for mode in (("gated",) if quick else ("gated", "free")):
                st, t, sens = conc_round(run, rb, sub, mode, 1, "race_" + mode,
                                         race_log=os.path.join(run.sub("racelog"), "r"))
                tot["race_rounds"] = tot.get("race_rounds", 0) + st.get("rounds", 0)
                if sens:
                    race_events += len(vp.read_ndjson(sens))
                    segs.insert(0, ("sensor", sens, None))
                segs.append(("%s concurrent (race build)" % mode, t, sub))
        ok = validate(run, segs, "sensor", known)
    run.cov["race_sensor_events"] = race_events
    lap("race_sensor")

    run.cov["traces_validated_against_impl"] = int(tot.get("programs", 0) + tot.get("gated_rounds", 0) +
                                                   tot.get("free_rounds", 0) + tot.get("race_rounds", 0))
    run.cov["real_operations"] = int(tot.get("cases", 0) + tot.get("reg_unreg", 0) + tot.get("dispatches", 0))
    run.cov["driver_counts"] = tot
    run.cov["known_deviations_enabled"] = sorted(known)
    run.assumptions += [
        "CRC-32 mathematics is not re-derived: the checksum is an injective function of the encoded payload in the "
        "specification; the driver enumerates concrete corruptions (every single bit, every burst start x length "
        "2..32 with all-ones / end-points / seeded interiors for payloads <= 64 bytes, seeded positions above)",
        "header fields are outside the checksum and outside the property (only Data.MsgInfo is corrupted)",
        "steps of the dispatcher without a Subscriber callback (lock, unlock, cache access) are not controlled; "
        "the validated object is the recorded API-level trace with TLC choosing the invisible interleaving",
        "de-duplication is only claimed inside the 3 s window: programs / rounds slower than 1.5 s are re-run or dropped",
        "comp = FALSE cases are built by hand as an older peer would (raw payload, p2p.Checksum)"]
    run.finish(require={
        "messages_round_tripped": (tot.get("roundtrips_same", 0), 1000),
        "corruptions_tried": (tot.get("corruptions_tried", 0), 100000),
        "corruptions_detected": (tot.get("corruptions_detected", 0), 100000),
        "response_types": (tot.get("requests", 0), 5),
        "dispatch_programs": (tot.get("programs", 0), 100),
        "dispatches": (tot.get("dispatches", 0), 200),
        "deliveries": (tot.get("deliveries", 0), 100),
        "dropped_repeats": (real_dropped, 20),
        "multi_subscriber_deliveries": (real_multi, 10),
        "model_dropped_repeats": (model["model_dropped_repeats"], 20),
        "concurrent_rounds": (tot.get("gated_rounds", 0) + tot.get("free_rounds", 0), 100),
        "overlapping_calls": (tot.get("gated_overlapping_calls", 0) + tot.get("free_overlapping_calls", 0), 200),
        "concurrent_deliveries": (tot.get("conc_deliveries", 0), 20),
    })


def replay(run, known):
    """./check C20 --replay FILE: re-execute the recorded case / behaviour on the current tree and re-validate."""
    rp = json.load(open(run.replay))
    run.seed = int(rp.get("seed", run.seed))
    binary = build(run)
    kind = rp.get("kind", "")
    ev = rp.get("first_unexplained_event") or {}
    if kind == "codec":
        run.tlc_mc("Gen_P2P.tla", "MC_P2P_codec.cfg", name="mc_codec", timeout=600)
        cases = os.path.join(run.work, "mc_codec", "codec_cases.json")
        trace = os.path.join(run.work, "codec.ndjson")
        if ev.get("op") == "resp":
            must(run, binary, ["resp", "-out", trace])
        else:
            must(run, binary, ["codec", "-in", cases, "-out", trace, "-only", ev.get("i", 0)])
        validate(run, [("codec", trace, None)], "codec", known)
    else:
        beh = rp.get("behaviour")
        if not beh:
            raise vp.Undecided("the replay file carries no behaviour (concurrent rounds are re-run by seed: "
                               "VERIF_SEED=%s ./check C20)" % rp.get("seed"))
        d = tracecheck.dump_behaviours(run, [beh], "replay_in")
        trace = os.path.join(run.work, "replay.ndjson")
        if "concurrent" in kind:        # not deterministic: the behaviour is run 60 times in that mode
            must(run, binary, ["disp-conc", "-in", d, "-out", trace, "-mode", kind.split()[0], "-reps", 60])
        else:
            must(run, binary, ["disp-seq", "-in", d, "-out", trace])
        validate(run, [(kind or "sequential", trace, [beh])], "replay", known)
    run.finish()
