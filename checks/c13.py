"""C13 - blocks a node produces are valid everywhere and replay to the producer's state.

XState.tla: PoolOrderOK (producers before consumers; a reader of a key version before the transaction that
supersedes it), Mine = block packed from the pool in the pool's own order + ledger confirmation + PlayForMiner;
ReplicaObs(b) = what a node that never saw the transactions obtains by confirming the chain of b and walking to
it. Model-checked: every mined block with an admissible order is valid on its chain (SeqValidOn) and PureFn holds
on the producer. On the real code the pool's order is taken from State.GetUnconfirmedTx (recorded, not chosen),
the block is formatted, checked with VerifyBlock / IsValidTx, confirmed, played with PlayForMiner, and replayed on a
fresh real replica; order, producer state and replica state are validated by TLC after every mined block."""
import vp
import xstate_common as xc


def check(run):
    if xc.maybe_replay(run):
        return
    quick = run.tier == "quick"
    run.build_harness()
    run.tlc_mc("XState.tla", "MC_XState_miner.cfg", timeout=3000)
    plans = [dict(num=90, ops=22, maxb=8, driver_args=["-replica"], batch=120)] if quick else \
            [dict(num=600, ops=24, maxb=8, driver_args=["-replica"], batch=150), dict(num=300, ops=34, maxb=11, driver_args=["-replica"], batch=150)]
    # a chain with 1 MB blocks and 300 KB transactions: the pool exceeds the block budget, packBlock takes a prefix
    bigtx = '{"b1", "b2", "b3", "s4", "t1", "t2", "p1", "p2"}'
    plans.append(dict(num=40 if quick else 300, ops=20, maxb=8, txs=bigtx, budget=8, driver_args=["-replica", "-maxmb", "1"], batch=100))
    # a chain whose award decays (1000 x (3/4)^(height div 2), rounded): every node must compute the award of a height
    # the same way whatever it has computed before (producer after a long run, fresh replica, restarted node)
    decay = {"AwardSched": "<- DecaySched"}
    plans.append(dict(num=30 if quick else 300, ops=26, maxb=12, txs='{"t1", "t2", "t3", "p1", "p2"}', consts=decay, driver_args=["-replica"], batch=100))
    groups = xc.gen(run, plans, cfg="Gen_XState_miner.cfg")
    xc.replay_validate(run, groups)
    # engine level: the real Miner.mining round and the real ProcBlock pipeline on peers' chains
    ebehs, est = ([], {})
    if not run.violations:
        ebehs, est = xc.engine_phase(run, 40 if quick else 300)
    # the engine pipeline on a chain with a decaying award (mining rounds after a consensus-requested truncation must pay the
    # award of the height they produce at; pushed chains carry the award of each block's own height)
    if not run.violations:
        xc.engine_phase(run, 15 if quick else 250, ops=34, mc=False, tag="d", extra_consts=decay)
    # network level: several real engines exchange the blocks they mine; every produced block must be accepted by the
    # other nodes and lead them to the producer's state (Net.tla)
    nst = {}
    if not run.violations:
        run.tlc_mc("Net.tla", "MC_Net.cfg" if quick else "MC_Net_thorough.cfg", timeout=3000)
        _, nst = xc.net_phase(run, 15 if quick else 250, mc=False)
    behs = [b for _, bs, _ in groups for b in bs]
    st = xc.stats(behs)
    ops = [o for b in behs for o in b]
    mined = [o for o in ops if o["op"] == "mine"]
    run.samples = behs[:2]
    run.cov["op_mix"] = dict(st)
    run.cov["mined_block_sizes"] = sorted({len(o.get("txs") or []) for o in mined})
    big = {"b1", "b2", "b3"}
    run.cov["mined_with_budget_reached"] = sum(1 for b in behs for i, o in enumerate(b) if o["op"] == "mine" and len(big & set(o.get("txs") or [])) == 2)
    run.assumptions += ["the iteration orders of the pool (Go map iteration) are sampled, not enumerated: each mined block records the "
                        "order the real pool yielded", "the timer transaction is empty in these scenarios (no timer tasks); the block size "
                        "limit is never reached", "the block's consensus fields are those of the single-miner fixture",
                        "award schedules: constant 1, and 1000 x (3/4)^(height div 2) (exact in float64, so the specification's rational rounding equals CalcAward's)"]
    run.finish(require={"mined_blocks": (len(mined), 40), "mined_with_3_or_more_txs": (sum(1 for o in mined if len(o.get("txs") or []) >= 3), 10),
                        "replicas": (run.cov.get("real_replicas", 0), 40),
                        "mined_with_budget_reached": (run.cov.get("mined_with_budget_reached", 0), 3),
                        "engine_pushes": (run.cov.get("real_pushes", 0), 100), "engine_mining_rounds": (est.get("mine:ok", 0), 5),
                        "network_mining_rounds": (nst.get("nmine:ok", 0), 30), "network_block_deliveries": (nst.get("ndeliverblk:ok", 0), 30)})
