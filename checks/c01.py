"""C01 - the state at a block is a pure function of that block's chain (play / undo / walk / restart).

(1) TLC model-checks spec/XState.tla (block trees x submit / play / mine / walk / restart orders over a
    transaction catalogue) against PureFn (state minus pool effects = Replay(pointer)) and friends.
(2) TLC simulates the spec; (3) the behaviours are replayed on the real ledger + state machine (real
    signed transactions, a kernel contract for key writes), every observable is projected through public
    queries after every step; (4) TLC validates the recorded trace against the same actions."""
import vp
import xstate_common as xc


def check(run):
    if xc.maybe_replay(run):
        return
    quick = run.tier == "quick"
    run.build_harness()
    run.tlc_mc("XState.tla", "MC_XState.cfg" if quick else "MC_XState_thorough.cfg", timeout=3000)
    if not quick:
        run.tlc_mc("XState.tla", "MC_XState_kv.cfg", timeout=3000)
    kv = '{"p1", "p2", "p3", "p4", "p5", "p6", "p7", "p8", "p9", "p10", "p12", "t1", "t2"}'
    plans = [dict(num=160, ops=18), dict(num=140, ops=20, txs=kv, maxb=8)] if quick else \
            [dict(num=1500, ops=18), dict(num=800, ops=26, maxb=9), dict(num=1000, ops=22, txs=kv, maxb=8), dict(num=400, ops=18, window=2)]
    # the same transfers with non-canonical amount spellings (a leading zero byte; a zero amount as 0x00): what is applied
    # and what is undone must not depend on the spelling
    tokz = '{"t1", "t2", "t3", "t4", "t5", "t6", "t7", "t8", "x1", "p1"}'
    plans.append(dict(num=50 if quick else 500, ops=18, txs=tokz, driver_args=["-enc", "lz"]))
    groups = xc.gen(run, plans)
    xc.replay_validate(run, groups)
    # the same statement for every node of a network of real engines: the projection of each node after every step
    # equals what the specification derives from that node's chain and pool alone (Net.tla), whatever order blocks and
    # transactions arrived in
    nst = {}
    if not run.violations:
        _, nst = xc.net_phase(run, 15 if quick else 400, mc=not quick)
    behs = [b for _, bs, _ in groups for b in bs]
    st = xc.stats(behs)
    run.samples = behs[:2]
    run.cov["op_mix"] = dict(st)
    run.assumptions += ["transactions come from the catalogue of XState.tla (transfers with fee, zero-value "
                        "and frozen outputs, dependent chains, double spends, key create / overwrite / delete / re-create / "
                        "delete-of-missing / read-only)", "in-memory kv engine instead of goleveldb",
                        "chain-governed parameters other than the irreversible height are not varied"]
    run.finish(require={
        "walks_ok": (st["walk:ok"], 20), "plays_ok": (st["play:ok"], 10), "mines": (st["mine:ok"], 10),
        "restarts": (st["restart:ok"], 10), "admitted": (st["submit:admit"], 30),
        "network_block_deliveries": (nst.get("ndeliverblk:ok", 0), 20),
    })
