"""Shared driver of the checks that are decided by spec/XState.tla (C01, C02, C03, C05, C17, C18)."""
import collections, json, os
import vp
import tracecheck

ALL_TXS = '{"t1", "t2", "t3", "t4", "t5", "t6", "t7", "t8", "p1", "p2", "p3", "p4", "p5", "p6", "p7", "p8", "p9", "p10", "p12", "w1", "w2", "w3", "w4", "w5", "w6", "c1", "p11", "x1", "x2", "b1", "b2", "b3", "s4"}'

KF_DESC = {
    "KF_PoolMasksBlockOrder": "PlayAndRepost validates a peer block against the state that still contains the node's own "
                              "pool: a block that consumes outputs / key versions produced only by pending transactions "
                              "(or lists a consumer before its producer) plays on that node although a fresh node refuses it",
    "KF_FrozenLedgerHeight": "the frozen-output check of a block's transactions uses the node's ledger height at play "
                             "time, not the block's own height: a block spending an output before its thaw height is "
                             "refused as tip but accepted when walked over later",
}


def stats(behs):
    c = collections.Counter()
    for b in behs:
        for o in b:
            c["%s:%s" % (o["op"], o.get("res"))] += 1
    return c


def gen(run, plans, cfg="Gen_XState.cfg", module="Gen_XState.tla", tag=""):
    """plans: list of dict(num, ops, consts). Returns (behaviours grouped by window, catalog path)."""
    groups = []
    for k, p in enumerate(plans):
        consts = {"MaxOps": p["ops"], "MaxBlocks": p.get("maxb", 7), "MaxTxPerBlock": p.get("mtx", 2),
                  "Window": p.get("window", 0), "ActiveTxs": p.get("txs", ALL_TXS), "BlockBudget": p.get("budget", 1000)}
        consts.update(p.get("consts", {}))
        behs = run.tlc_gen(module, p.get("cfg", cfg), p["num"], p["ops"] + 2, name="gen%s%d" % (tag, k), seed=run.seed * 1000 + k, consts=consts)
        groups.append((p, behs, os.path.join(run.work, "gen%s%d" % (tag, k), "catalog.json")))
    return groups


# Deviations that concern C01 / C03 only (whether PlayAndRepost / Walk accept a particular invalid peer block).
# For the other properties decided by this specification the acceptance of such a block is outside what the
# property states, so the specification is permissive there (R2): the deviation is enabled silently and the
# rest of that behaviour is skipped, no KNOWN-FINDING line is printed.
_ALL = ["KF_PoolMasksBlockOrder", "KF_PoolOrderAntiDep", "KF_FrozenLedgerHeight"]
OUTSIDE = {"C01": ["KF_FrozenLedgerHeight"], "C02": ["KF_PoolOrderAntiDep", "KF_FrozenLedgerHeight"],
           "C03": ["KF_FrozenLedgerHeight"], "C13": ["KF_PoolMasksBlockOrder", "KF_FrozenLedgerHeight"],
           "C05": _ALL, "C06": _ALL, "C17": _ALL, "C18": _ALL}


def kf_for(run):
    """Constant overrides of the trace cfgs for this property: deviations listed as known (reported), deviations outside
    the property (silent), and for C13 the judgement of the read-before-overwrite half of the pool's order."""
    known = {k: KF_DESC.get(k, d) + " [" + d + "]" for k, d in vp.known_keys(run.pid).items()}
    kf_consts = {k: "TRUE" for k in known if k.startswith("KF_")}
    for k in OUTSIDE.get(run.pid, []):
        kf_consts[k] = "TRUE"
        known.setdefault(k, None)
    if run.pid == "C13":
        kf_consts["JudgePoolAntiDep"] = "<- Yes"
    return kf_consts, known


def replay_validate(run, groups, extra_driver_args=(), trace_cfg="Trace_XState.cfg"):
    kf_consts, known = kf_for(run)
    total = 0
    for p, behs, cat in groups:
        args = ["-catalog", cat, "-window", str(p.get("window", 0))] + list(p.get("driver_args", [])) + list(extra_driver_args)
        consts = {"Window": p.get("window", 0), "BlockBudget": p.get("budget", 1000)}
        consts.update(p.get("consts", {}))
        total += tracecheck.replay_and_validate(run, behs, driver="xstate-replay", driver_args=args,
                                                trace_module="Trace_XState.tla", trace_cfg=trace_cfg, consts=consts,
                                                kf_consts=kf_consts or None, kf_desc={k: known.get(k) for k in kf_consts},
                                                name="w%d" % p.get("window", 0), batch=p.get("batch", 250))
        if run.violations:
            break
    return total


def engine_phase(run, num, ops=40, window=0, mc=True, tag="", extra_consts=None):
    """Engine.tla: the production block pipeline (Miner.ProcBlock -> trySyncBlock -> downloadMissBlock through a stub
    network -> batchConfirmBlock with the real single consensus -> Walk; Miner.mining; restarts). One pushed chain is
    explained by PushBegin, silent micro-steps (XState actions) and PushEnd."""
    if mc:
        run.tlc_mc("Engine.tla", "MC_Engine.cfg", timeout=3000)
    consts = {"MaxOps": ops, "MaxBlocks": 14, "Window": window}
    consts.update(extra_consts or {})
    behs = run.tlc_gen("Gen_Engine.tla", "Gen_Engine.cfg", num, ops + 30, name="genE" + tag, seed=run.seed * 1000 + 77, consts=consts)
    cat = os.path.join(run.work, "genE" + tag, "catalog.json")
    kf_consts, known = kf_for(run)
    tracecheck.replay_and_validate(run, behs, driver="engine-replay", driver_args=["-catalog", cat, "-window", str(window)],
                                   trace_module="Trace_Engine.tla", trace_cfg="Trace_Engine.cfg", consts=dict({"Window": window}, **(extra_consts or {})),
                                   kf_consts=kf_consts or None, kf_desc={k: known.get(k) for k in kf_consts}, name="E", batch=200)
    st = stats(behs)
    run.cov["engine_op_mix"] = dict(st)
    # truncating rounds whose walk the specification refuses (it would cross the irreversible height)
    run.cov["engine_trunc_refused"] = run.cov.get("engine_trunc_refused", 0) + sum(
        1 for b in behs for i, o in enumerate(b) if o["op"] == "minetrunc" and i + 1 < len(b) and b[i + 1]["op"] == "walk" and b[i + 1]["res"] == "fail")
    return behs, st


def net_phase(run, num, ops=34, nodes=3, mc=True):
    """Net.tla: a network of real engines in one process (own ledger / state / miner each). TLC model-checks the
    network design (every node keeps C02 / C03 / C04-tip rule, every produced block replays everywhere, convergence
    once every announcement is delivered); TLC-simulated schedules of submissions, mining rounds, block / transaction
    deliveries in any order, losses and restarts are executed on the real nodes; after every step the projection of
    EVERY node is validated against the state the specification derives from that node's chain and pool."""
    if mc:
        run.tlc_mc("Net.tla", "MC_Net.cfg", timeout=3000)
    nodeset = "{" + ", ".join(str(i) for i in range(1, nodes + 1)) + "}"
    behs = run.tlc_gen("Gen_Net.tla", "Gen_Net.cfg", num, ops + 2, name="genN", seed=run.seed * 1000 + 99,
                       consts={"MaxOps": ops, "Nodes": nodeset})
    cat = os.path.join(run.work, "genN", "catalog.json")
    tracecheck.replay_and_validate(run, behs, driver="net-replay", driver_args=["-catalog", cat, "-nodes", str(nodes)],
                                   trace_module="Trace_Net.tla", trace_cfg="Trace_Net.cfg", consts={"Nodes": nodeset},
                                   kf_consts={"JudgePoolAntiDep": "<- Yes"} if run.pid == "C13" else None,
                                   name="N", batch=60)
    st = stats(behs)
    run.cov["net_op_mix"] = dict(st)
    run.cov["net_nodes"] = nodes
    return behs, st


def maybe_replay(run):
    """--replay FILE: re-execute the recorded program of a violation on the current tree and validate it again."""
    if not getattr(run, "replay", None):
        return False
    rp = json.load(open(run.replay))
    run.build_harness()
    driver = rp["driver"]
    gen = {"xstate-replay": ("Gen_XState.tla", "Gen_XState.cfg"), "engine-replay": ("Gen_Engine.tla", "Gen_Engine.cfg"),
           "net-replay": ("Gen_Net.tla", "Gen_Net.cfg"), "ledger-replay": None}[driver]
    args = list(rp.get("driver_args", []))
    consts = dict(rp.get("consts") or {})
    if gen:   # the catalogue is exported by the generator module (same constants as the recorded run)
        gconsts = {k: v for k, v in consts.items() if k in ("AwardSched", "Nodes")}
        gconsts.update({"MaxOps": 2, "ActiveTxs": ALL_TXS})
        run.tlc_gen(gen[0], gen[1], 1, 4, name="genR", seed=1, consts=gconsts)
        cat = os.path.join(run.work, "genR", "catalog.json")
        if "-catalog" in args:
            args[args.index("-catalog") + 1] = cat
    kf_consts, known = kf_for(run)
    prog = [{k: v for k, v in o.items() if k not in ("tr", "i")} for o in rp["program"]]
    tracecheck.replay_and_validate(run, [prog], driver=driver, driver_args=args, trace_module=rp["trace_module"],
                                   trace_cfg=rp["trace_cfg"], consts=consts, name="R",
                                   kf_consts=(kf_consts or None) if driver != "ledger-replay" else None,
                                   kf_desc={k: known.get(k) for k in kf_consts})
    run.samples = [prog]
    run.cov["replayed_file"] = os.path.basename(run.replay)
    run.finish()
    return True
