"""C18 - snapshot reads return a key's value as of the chosen main-chain block.

XState.tla: SnapGet transcribes xModSnapshot.Get (newest version incl. pending writes, follow each writer's own input
reference backwards, skip unconfirmed writers, stop at the first writer confirmed at height <= the snapshot's);
invariant SnapshotOK: SnapGet(B, k) = what replaying genesis..B leaves for k, for every block B of the chain.
Key histories (create, overwrite, delete, re-create, delete-of-missing, several writes per block, pending writes on
top, reorganisations) are replayed on the real code; after every step CreateSnapshot(B).Get for every block B of
the pointer's chain and every key is validated (field obs.snap)."""
import vp
import xstate_common as xc


def check(run):
    if xc.maybe_replay(run):
        return
    quick = run.tier == "quick"
    run.build_harness()
    run.tlc_mc("XState.tla", "MC_XState_kv.cfg" if quick else "MC_XState_kv_thorough.cfg", timeout=3000)
    kv = '{"p1", "p2", "p3", "p4", "p5", "p6", "p7", "p8", "p9", "p10", "p12", "t1"}'
    plans = [dict(num=110, ops=20, txs=kv, maxb=8)] if quick else [dict(num=900, ops=22, txs=kv, maxb=8), dict(num=300, ops=30, txs=kv, maxb=10)]
    groups = xc.gen(run, plans)
    xc.replay_validate(run, groups)
    behs = [b for _, bs, _ in groups for b in bs]
    st = xc.stats(behs)
    ops = [o for b in behs for o in b]
    kvblocks = sum(1 for o in ops if o["op"] in ("mkblock", "mine") and any(t.startswith("p") for t in (o.get("txs") or [])))
    run.samples = behs[:2]
    run.cov["op_mix"] = dict(st)
    run.assumptions += ["snapshots are specified (and compared) only while the state machine is on the ledger's main chain",
                        "GetTipXMSnapshotReader / CreateXMSnapshotReader wrap the same reader (value only)"]
    run.finish(require={"blocks_with_key_writes": (kvblocks, 30), "pending_writes": (st["submit:admit"], 30),
                        "walks_ok": (st["walk:ok"], 20), "plays_ok": (st["play:ok"] + st["mine:ok"], 15)})
